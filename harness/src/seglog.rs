//! C09 / C03 / C10: the real segmented rollback log (`nomt/src/seglog`: `open` with recovery, `append` with segment
//! roll-over, `prune_oldest`, `prune_recent`), the delta codec (`rollback/delta.rs`) and `Rollback::read`, driven through
//! `nomt::verif_api` (cfg nomt_verif) on a scratch directory under /dev/shm.  Every step is one protocol line for the Lean
//! driver's `seglog` mode (model: a directory of segment files, `Store/SegModel.lean`); the answers carry the records
//! returned, the live range, the ordered file-system effects the operation issued (recorded through the I/O hook) and a
//! listing of the directory (segment id, size, FNV-1a of the content).
//!
//! Crash images are produced with the REAL code: the operation runs on a copy of the directory with an I/O-hook handler
//! that fails the k-th file-system effect (and everything after it), i.e. the copy holds exactly the first k effects;
//! optionally the last written file is then cut at a random byte (torn append) and a first recovery is interrupted the
//! same way.  `open` on the image must succeed and return the records of the old / new live range.
//!
//! Oracles independent of the model (a plain list of appended records):
//!   * C09/C10: a successful `open(s, e)` on a legit range returns a run of consecutive records ending at `e`, containing
//!     every record of `[max(s, lo) ..= e]` (`lo` = smallest id certainly not pruned), each with the appended bytes;
//!   * C03: `open` with the pre-operation range (append) / the published range (prunes, recovery) succeeds on EVERY
//!     crash image (event boundaries, torn tails that keep 0 or at least 12 bytes of the header) and returns that list;
//!   * C09: `decode(encode(delta)) = delta`.
use crate::util::*;
use nomt::verif_api::{delta_decode, delta_encode, rollback_read, SegLogSim};
use nomt::verif_hook::{self, Event, Kind, Phase};
use std::collections::BTreeMap;
use std::path::{Path, PathBuf};
use std::sync::{Arc, Mutex};

const PREFIX: &str = "rollback";
const ALIGN: u64 = 4096;

struct Trace {
    events: Vec<String>,
    begins: usize,
    fail_at: Option<usize>,
}
static TRACE: Mutex<Trace> = Mutex::new(Trace { events: vec![], begins: 0, fail_at: None });

fn seg_of_path(p: &Path) -> u64 {
    let name = p.file_name().and_then(|n| n.to_str()).unwrap_or("");
    name.split('.').nth(1).and_then(|s| s.parse().ok()).unwrap_or(u64::MAX)
}

fn install_handler() {
    verif_hook::set_handler(Some(Arc::new(|ev: &Event<'_>| {
        if ev.phase != Phase::Begin {
            return Ok(());
        }
        let mut t = TRACE.lock().unwrap();
        if let Some(k) = t.fail_at {
            if t.begins >= k {
                return Err(std::io::Error::new(std::io::ErrorKind::Other, "injected crash"));
            }
        }
        t.begins += 1;
        let s = match ev.kind {
            Kind::Create => format!("C{}", ev.path.map(seg_of_path).unwrap_or(u64::MAX)),
            Kind::Unlink => format!("U{}", ev.path.map(seg_of_path).unwrap_or(u64::MAX)),
            Kind::Append => format!("A{}", ev.len),
            Kind::SetLen => format!("L{}", ev.offset),
            Kind::Fsync => "F".to_string(),
            Kind::DirSync => "D".to_string(),
            Kind::Write => "W".to_string(),
        };
        t.events.push(s);
        Ok(())
    })));
}

fn arm(fail_at: Option<usize>) {
    let mut t = TRACE.lock().unwrap();
    t.events.clear();
    t.begins = 0;
    t.fail_at = fail_at;
}
fn take_trace() -> String {
    let mut t = TRACE.lock().unwrap();
    t.fail_at = None;
    let ev = std::mem::take(&mut t.events);
    if ev.is_empty() {
        "-".into()
    } else {
        ev.join(".")
    }
}

fn fnv(bytes: &[u8]) -> u64 {
    let mut h: u64 = 0xcbf29ce484222325;
    for b in bytes {
        h ^= *b as u64;
        h = h.wrapping_mul(0x100000001b3);
    }
    h
}

fn seg_path(dir: &Path, id: u64) -> PathBuf {
    dir.join(format!("{PREFIX}.{id:0>10}.log"))
}

fn listing(dir: &Path) -> String {
    let mut v: Vec<(u64, u64, u64)> = vec![];
    if let Ok(rd) = std::fs::read_dir(dir) {
        for e in rd.flatten() {
            let p = e.path();
            let name = p.file_name().and_then(|n| n.to_str()).unwrap_or("").to_string();
            if name.starts_with(PREFIX) {
                let bytes = std::fs::read(&p).unwrap_or_default();
                v.push((seg_of_path(&p), bytes.len() as u64, fnv(&bytes)));
            }
        }
    }
    v.sort();
    if v.is_empty() {
        "-".into()
    } else {
        v.iter().map(|(i, s, h)| format!("{i}:{s}:{h:016x}")).collect::<Vec<_>>().join(";")
    }
}

fn seg_files(dir: &Path) -> Vec<(u64, u64)> {
    let mut v: Vec<(u64, u64)> = vec![];
    if let Ok(rd) = std::fs::read_dir(dir) {
        for e in rd.flatten() {
            let p = e.path();
            let name = p.file_name().and_then(|n| n.to_str()).unwrap_or("").to_string();
            if name.starts_with(PREFIX) {
                v.push((seg_of_path(&p), e.metadata().map(|m| m.len()).unwrap_or(0)));
            }
        }
    }
    v.sort();
    v
}

fn copy_dir(from: &Path, to: &Path) {
    let _ = std::fs::remove_dir_all(to);
    std::fs::create_dir_all(to).unwrap();
    for e in std::fs::read_dir(from).unwrap().flatten() {
        let p = e.path();
        if p.is_file() {
            std::fs::copy(&p, to.join(p.file_name().unwrap())).unwrap();
        }
    }
}

fn recs_str(recs: &[(u64, Vec<u8>)]) -> String {
    if recs.is_empty() {
        "-".into()
    } else {
        recs.iter().map(|(i, p)| format!("{i}:{}:{:016x}", p.len(), fnv(p))).collect::<Vec<_>>().join(",")
    }
}

fn hex_or_dash(b: &[u8]) -> String {
    if b.is_empty() {
        "-".into()
    } else {
        hex(b)
    }
}

/// the harness' own encoder of one record (header, payload, zero padding to the next multiple of 4096)
fn enc_record(id: u64, payload: &[u8]) -> Vec<u8> {
    let mut v = Vec::new();
    v.extend_from_slice(&(payload.len() as u32).to_le_bytes());
    v.extend_from_slice(&id.to_le_bytes());
    v.extend_from_slice(payload);
    while v.len() as u64 % ALIGN != 0 {
        v.push(0);
    }
    v
}

fn err_kind(msg: &str) -> String {
    let nums = |s: &str| -> Vec<String> {
        s.split(|c: char| !c.is_ascii_digit()).filter(|x| !x.is_empty()).map(|x| x.to_string()).collect()
    };
    if msg.starts_with("Gap in segment IDs") {
        let n = nums(msg);
        format!("gap:{}:{}", n[0], n[1])
    } else if msg.starts_with("IDs are not ordered") {
        let n = nums(msg);
        format!("unordered:{}:{}", n[0], n[1])
    } else if msg.contains("failed to fill whole buffer") {
        "shortread".into()
    } else if msg.starts_with("Failed to find the first live segment") {
        "nofirst".into()
    } else if msg.starts_with("Failed to find the last live segment") {
        "nolast".into()
    } else if msg.starts_with("Failed to find the last live record") {
        "nolastrec".into()
    } else if msg.starts_with("Start live and end live") {
        "rangenil".into()
    } else if msg.starts_with("Segment ID is nil") {
        "segidnil".into()
    } else if msg.starts_with("Invalid live segment indices") {
        "invalidlive".into()
    } else if msg.starts_with("Record payload size is too large") {
        "toolarge".into()
    } else if msg.starts_with("duplicate key path (erase)") {
        "duperase".into()
    } else if msg.starts_with("duplicate key path (reinstate)") {
        "dupreinstate".into()
    } else if msg.contains("injected crash") {
        "injected".into()
    } else if msg.contains("File exists") {
        "exists".into()
    } else {
        format!("other:{}", msg.replace(' ', "_"))
    }
}

enum OpenOut {
    Ok(SegLogSim, Vec<(u64, Vec<u8>)>),
    Err(String),
    Panic,
}

fn real_open(dir: &Path, maxseg: u64, s: u64, e: u64) -> OpenOut {
    let r = std::panic::catch_unwind(std::panic::AssertUnwindSafe(|| SegLogSim::open(dir, PREFIX, maxseg, s, e)));
    match r {
        Err(_) => OpenOut::Panic,
        Ok(Err(err)) => OpenOut::Err(err_kind(&err.root_cause().to_string())),
        Ok(Ok((log, recs))) => OpenOut::Ok(log, recs),
    }
}

fn open_answer(o: &OpenOut, trace: Option<&str>, dir: &Path) -> String {
    let tail = match trace {
        Some(t) => format!(" tr={t} dir={}", listing(dir)),
        None => format!(" dir={}", listing(dir)),
    };
    match o {
        OpenOut::Ok(log, recs) => {
            let (s, e) = log.live_range();
            format!("ok recs={} range={s},{e}{tail}", recs_str(recs))
        }
        OpenOut::Err(k) => format!("err {k}{tail}"),
        OpenOut::Panic => format!("panic{tail}"),
    }
}

#[derive(Clone)]
enum Op {
    Append(Vec<u8>),
    PruneOld(u64),
    PruneRecent(u64),
}
impl Op {
    fn line(&self) -> String {
        match self {
            Op::Append(p) => format!("append {}", hex_or_dash(p)),
            Op::PruneOld(n) => format!("pruneold {n}"),
            Op::PruneRecent(n) => format!("prunerecent {n}"),
        }
    }
}

/// (answer prefix without range/trace/dir, panicked)
fn real_op(log: &mut SegLogSim, op: &Op) -> (String, bool) {
    let r = std::panic::catch_unwind(std::panic::AssertUnwindSafe(|| match op {
        Op::Append(p) => match log.append(p) {
            Ok(id) => format!("ok {id}"),
            Err(e) => format!("err {}", err_kind(&e.root_cause().to_string())),
        },
        Op::PruneOld(n) => match log.prune_oldest(*n) {
            Ok(()) => "ok".to_string(),
            Err(e) => format!("err {}", err_kind(&e.to_string())),
        },
        Op::PruneRecent(n) => match log.prune_recent(*n) {
            Ok(()) => "ok".to_string(),
            Err(e) => format!("err {}", err_kind(&e.to_string())),
        },
    }));
    match r {
        Ok(s) => (s, false),
        Err(_) => ("panic".to_string(), true),
    }
}

/// the list-level oracle: every record appended and not cut away since, the range the "meta" holds, and the smallest
/// record id that has certainly not been pruned
struct Oracle {
    all: BTreeMap<u64, Vec<u8>>,
    s: u64,
    e: u64,
    lo: u64,
}

impl Oracle {
    /// check the records a successful `open(s, e)` returned on a legit range; `must_lo`: every id in `[must_lo, e]`
    /// must be there
    fn check_open(&self, out: &mut Sink, tag: &str, what: &str, recs: &[(u64, Vec<u8>)], s: u64, e: u64, must_lo: u64, all: &BTreeMap<u64, Vec<u8>>) {
        if e == 0 {
            if !recs.is_empty() {
                out.fail(format!("{tag} seglog open(0,0) returned records ({what})"));
            }
            return;
        }
        if recs.is_empty() {
            out.fail(format!("{tag} seglog open({s},{e}) returned no records ({what})"));
            return;
        }
        let last = recs.last().unwrap().0;
        if last != e {
            out.fail(format!("{tag} seglog open({s},{e}) last record {last} != end of the live range ({what})"));
        }
        let first = recs[0].0;
        if first < s {
            out.fail(format!("{tag} seglog open({s},{e}) returned record {first} below the live range ({what})"));
        }
        if first > must_lo.max(s) {
            out.fail(format!("{tag} seglog open({s},{e}) lost live records: first returned {first}, expected from {} ({what})", must_lo.max(s)));
        }
        for (i, (id, p)) in recs.iter().enumerate() {
            if *id != first + i as u64 {
                out.fail(format!("{tag} seglog open({s},{e}) records not consecutive at {id} ({what})"));
                break;
            }
            match all.get(id) {
                Some(q) if q == p => {}
                _ => {
                    out.fail(format!("{tag} seglog open({s},{e}) record {id} has wrong payload ({what})"));
                    break;
                }
            }
        }
        let _ = self;
    }
}

fn mk_delta(r: &mut Rng) -> Vec<([u8; 32], Option<Vec<u8>>)> {
    let n = *r.pick(&[0usize, 0, 1, 1, 2, 3, 5]);
    let mut keys: Vec<[u8; 32]> = vec![];
    let mut v = vec![];
    for _ in 0..n {
        let mut k = r.bytes32();
        if r.chance(1, 4) && !keys.is_empty() {
            // a neighbour of an earlier key (differs in the last byte only)
            k = *r.pick(&keys);
            k[31] = k[31].wrapping_add(1 + r.below(200) as u8);
        }
        if keys.contains(&k) {
            continue;
        }
        keys.push(k);
        let val = if r.chance(1, 3) {
            None
        } else {
            let l = *r.pick(&[0usize, 1, 2, 31, 32, 33, 100, 255, 256, 257, 1000]);
            Some((0..l).map(|_| r.next() as u8).collect())
        };
        v.push((k, val));
    }
    v
}

/// a payload of exactly `size` bytes: an encoded delta followed by filler (decode ignores what follows the second
/// group) when it fits, otherwise `size` arbitrary bytes
fn mk_payload(r: &mut Rng, size: usize) -> Vec<u8> {
    let enc = delta_encode(mk_delta(r));
    // not a delta: a count no stream can satisfy (decode fails with a short read; an arbitrary value length would make
    // `decode` allocate up to 4 GiB before it notices) or, below 8 bytes, anything
    let mut p = if enc.len() <= size && !r.chance(1, 12) {
        enc
    } else if size >= 4 {
        vec![0xff; 4]
    } else {
        vec![]
    };
    while p.len() < size {
        p.push(if r.chance(1, 3) { 0 } else { r.next() as u8 });
    }
    p
}

fn payload_size(r: &mut Rng, maxseg: u64) -> usize {
    let m = maxseg as usize;
    let choices = [
        0usize,
        1,
        8,
        100,
        4083,
        4084, // 12 + 4084 = one page exactly
        4085,
        8179,
        8180,
        8181,
        m.saturating_sub(12),
        m.saturating_sub(11),
        m.saturating_sub(13),
        m,
        r.range(0, 64),
        r.range(0, 4200),
        r.range(4000, 12500),
    ];
    (*r.pick(&choices)).min(13000)
}

struct Ctx<'a> {
    out: &'a mut Sink,
    root: PathBuf,
    main: PathBuf,
    scratch: PathBuf,
    maxseg: u64,
}

impl<'a> Ctx<'a> {
    /// apply mutations to the scratch copy; returns the protocol string
    fn apply_muts(&self, muts: &[String]) {
        for m in muts {
            let f: Vec<&str> = m.split(':').collect();
            match f[0] {
                "rm" => {
                    let _ = std::fs::remove_file(seg_path(&self.scratch, f[1].parse().unwrap()));
                }
                "new" => {
                    std::fs::write(seg_path(&self.scratch, f[1].parse().unwrap()), b"").unwrap();
                }
                "trunc" => {
                    let file = std::fs::OpenOptions::new().write(true).open(seg_path(&self.scratch, f[1].parse().unwrap())).unwrap();
                    file.set_len(f[2].parse().unwrap()).unwrap();
                }
                "add" => {
                    let payload = if f[3] == "-" { vec![] } else { unhex(f[3]) };
                    let mut bytes = enc_record(f[2].parse().unwrap(), &payload);
                    if f[4] != "-" {
                        bytes.truncate(f[4].parse().unwrap());
                    }
                    use std::io::Write;
                    let mut file = std::fs::OpenOptions::new().append(true).open(seg_path(&self.scratch, f[1].parse().unwrap())).unwrap();
                    file.write_all(&bytes).unwrap();
                }
                _ => unreachable!(),
            }
        }
    }

    /// `open(s,e)` on the scratch image, optionally after a first recovery that dies at its j-th effect
    fn open_image(&mut self, j: Option<usize>, s: u64, e: u64) -> (OpenOut, String) {
        if let Some(j) = j {
            arm(Some(j));
            let first = real_open(&self.scratch, self.maxseg, s, e);
            drop(first);
            let _ = take_trace();
        }
        arm(None);
        let o = real_open(&self.scratch, self.maxseg, s, e);
        let tr = take_trace();
        (o, tr)
    }
}

fn muts_str(m: &[String]) -> String {
    if m.is_empty() {
        "-".into()
    } else {
        m.join("+")
    }
}
fn opt_str(k: Option<usize>) -> String {
    match k {
        Some(k) => k.to_string(),
        None => "-".into(),
    }
}

pub fn run(seed: u64, cases: usize, out: &mut Sink) {
    install_handler();
    let mut rng = Rng::new(seed ^ 0x5E61_06);
    let pid = std::process::id();
    for case in 0..cases {
        let mut r = rng.fork();
        let maxseg: u64 = *r.pick(&[1u64, 100, 4096, 4097, 8192, 8192, 12288, 12288, 20000, 40000]);
        let root = PathBuf::from(format!("/dev/shm/pa-seglog-{pid}-{seed}-{case}"));
        let _ = std::fs::remove_dir_all(&root);
        let main = root.join("main");
        let scratch = root.join("scratch");
        std::fs::create_dir_all(&main).unwrap();
        let mut cx = Ctx { out: &mut *out, root: root.clone(), main: main.clone(), scratch, maxseg };
        run_case(&mut cx, &mut r, case);
        let _ = std::fs::remove_dir_all(&root);
    }
    verif_hook::set_handler(None);
    run_delta(seed, cases, out);
}

fn run_case(cx: &mut Ctx<'_>, r: &mut Rng, case: usize) {
    let maxseg = cx.maxseg;
    let main = cx.main.clone();
    cx.out.mark_case(format!("case {case} seglog maxseg={maxseg}"));
    cx.out.line(format!("new {maxseg}"), "ok".into());
    let mut orc = Oracle { all: BTreeMap::new(), s: 0, e: 0, lo: 1 };
    // ---- open the empty log
    arm(None);
    let o = real_open(&main, maxseg, 0, 0);
    let tr = take_trace();
    cx.out.line("open 0 0".into(), open_answer(&o, Some(&tr), &main));
    let mut log: Option<SegLogSim> = match o {
        OpenOut::Ok(l, _) => Some(l),
        _ => {
            cx.out.fail("C10 seglog open of an empty directory failed".into());
            return;
        }
    };
    let nops = r.range(8, 28);
    let mut sig = String::new();
    for _step in 0..nops {
        let Some(l) = log.as_mut() else { break };
        let (s, e) = l.live_range();
        if (s, e) != (orc.s, orc.e) {
            cx.out.fail(format!("C09 seglog live range {s},{e} differs from the expected {},{}", orc.s, orc.e));
            break;
        }
        let choice = r.below(100);
        if choice < 52 || e == 0 {
            // ------------------------------------------------------------------ append
            let size = payload_size(r, maxseg);
            let p = mk_payload(r, size);
            let op = Op::Append(p.clone());
            if r.chance(2, 5) {
                crash_probes(cx, r, &orc, &op, s, e);
            }
            arm(None);
            let (ans, _) = real_op(l, &op);
            let tr = take_trace();
            let (s2, e2) = l.live_range();
            cx.out.line(op.line(), format!("{ans} range={s2},{e2} tr={tr} dir={}", listing(&main)));
            cx.out.count("op_append");
            if tr.starts_with('C') {
                cx.out.count("append_rollover");
                sig.push('R');
            } else {
                sig.push('a');
            }
            if ans != format!("ok {}", e + 1) {
                cx.out.fail(format!("C09 seglog append returned {ans}, expected record id {}", e + 1));
                break;
            }
            orc.all.insert(e + 1, p);
            orc.e = e + 1;
            if orc.s == 0 {
                orc.s = e + 1;
                orc.lo = e + 1;
            }
            if (s2, e2) != (orc.s, orc.e) {
                cx.out.fail(format!("C09 seglog live range after append {s2},{e2}, expected {},{}", orc.s, orc.e));
            }
        } else if choice < 66 {
            // ------------------------------------------------------------------ prune_oldest
            let mid = (s + e) / 2;
            let n = *r.pick(&[s, s, s + 1, mid, mid, e, e, e.saturating_sub(1).max(s), e + 1, s.saturating_sub(1), 0]);
            let legit = n >= s && n <= e;
            if !legit && !r.chance(1, 4) {
                continue;
            }
            let op = Op::PruneOld(n);
            if legit && r.chance(1, 2) {
                crash_probes(cx, r, &orc, &op, s, e);
            }
            arm(None);
            let (ans, panicked) = real_op(l, &op);
            let tr = take_trace();
            let (s2, e2) = l.live_range();
            cx.out.line(op.line(), format!("{ans} range={s2},{e2} tr={tr} dir={}", listing(&main)));
            cx.out.count("op_prune_oldest");
            cx.out.add("segments_unlinked_by_prune_oldest", tr.matches('U').count() as u64);
            sig.push_str(&format!("o{}", tr.matches('U').count()));
            if legit {
                if ans != "ok" {
                    cx.out.fail(format!("C09 seglog prune_oldest({n}) on range {s},{e} returned {ans}"));
                    break;
                }
                orc.s = n;
                orc.lo = orc.lo.max(n);
            } else if n == 0 {
                orc.all.clear();
                orc.s = 0;
                orc.e = 0;
                orc.lo = 1;
            } else if !panicked {
                cx.out.fail(format!("C09 seglog prune_oldest({n}) outside the live range {s},{e} did not panic: {ans}"));
                break;
            } else {
                cx.out.count("prune_oldest_panic_expected");
            }
        } else if choice < 80 {
            // ------------------------------------------------------------------ prune_recent
            let mid = (s + e) / 2;
            let n = *r.pick(&[e, e, e.saturating_sub(1).max(1), mid, mid, s, s, orc.lo, s.saturating_sub(1), 0]);
            let legit = n >= s.max(orc.lo) && n <= e;
            if !legit && n != 0 && !r.chance(1, 3) {
                continue;
            }
            if n == 0 && !r.chance(1, 2) {
                continue;
            }
            let op = Op::PruneRecent(n);
            if (legit || n == 0) && r.chance(1, 2) {
                crash_probes(cx, r, &orc, &op, s, e);
            }
            arm(None);
            let (ans, _) = real_op(l, &op);
            let tr = take_trace();
            let (s2, e2) = l.live_range();
            cx.out.line(op.line(), format!("{ans} range={s2},{e2} tr={tr} dir={}", listing(&main)));
            cx.out.count("op_prune_recent");
            cx.out.add("segments_unlinked_by_prune_recent", tr.matches('U').count() as u64);
            sig.push_str(&format!("r{}", tr.matches('U').count()));
            if legit {
                if ans != "ok" {
                    cx.out.fail(format!("C09 seglog prune_recent({n}) on range {s},{e} (lo {}) returned {ans}", orc.lo));
                    break;
                }
                orc.all.retain(|id, _| *id <= n);
                orc.e = n;
            } else if n == 0 {
                orc.all.clear();
                orc.s = 0;
                orc.e = 0;
                orc.lo = 1;
            } else {
                // below what certainly exists: may succeed or fail; the model decides, the case ends here
                cx.out.count("prune_recent_below_lo");
                break;
            }
        } else if choice < 92 {
            // ------------------------------------------------------------------ close + reopen with a legit range
            let kind = r.below(10);
            let (ns, ne) = if e == 0 {
                (0, 0)
            } else if kind < 4 {
                (s, e)
            } else if kind < 7 {
                (r.range(1, s as usize) as u64, e) // lagging start
            } else if kind < 9 {
                (s, r.range(s.max(orc.lo) as usize, e as usize) as u64) // the meta never saw the last appends
            } else {
                (0, 0)
            };
            log = None;
            cx.out.line("close".into(), "ok".into());
            arm(None);
            let o = real_open(&main, maxseg, ns, ne);
            let tr = take_trace();
            cx.out.line(format!("open {ns} {ne}"), open_answer(&o, Some(&tr), &main));
            cx.out.count("op_reopen");
            sig.push_str(&format!("O{}", tr.matches('U').count()));
            match o {
                OpenOut::Ok(l2, recs) => {
                    orc.all.retain(|id, _| *id <= ne);
                    orc.s = ns;
                    orc.e = ne;
                    if ne == 0 {
                        orc.lo = 1;
                        orc.all.clear();
                    }
                    let all = orc.all.clone();
                    orc.check_open(cx.out, "C10", "reopen", &recs, ns, ne, orc.lo, &all);
                    log = Some(l2);
                }
                OpenOut::Err(k) => {
                    cx.out.fail(format!("C09 seglog reopen with the legit range {ns},{ne} (was {s},{e}, lo {}) failed: {k}", orc.lo));
                    break;
                }
                OpenOut::Panic => {
                    cx.out.fail(format!("C09 seglog reopen with the legit range {ns},{ne} panicked"));
                    break;
                }
            }
        } else if choice < 96 {
            // ------------------------------------------------------------------ probes on a copy
            probe(cx, r, &orc, s, e);
        } else {
            reprobe(cx, r, &orc, s, e);
        }
        // after every operation: what a reopen with the current range would return, on a copy
        if let Some(l) = log.as_ref() {
            let (s, e) = l.live_range();
            copy_dir(&main, &cx.scratch);
            let (o, tr) = cx.open_image(None, s, e);
            cx.out.line(format!("probe - - {s} {e}"), open_answer(&o, Some(&tr), &cx.scratch.clone()));
            match &o {
                OpenOut::Ok(_, recs) => {
                    let all = orc.all.clone();
                    orc.check_open(cx.out, "C10", "probe after op", recs, s, e, orc.lo, &all);
                }
                OpenOut::Err(k) => cx.out.fail(format!("C09 seglog cannot be reopened with its live range {s},{e}: {k}")),
                OpenOut::Panic => cx.out.fail(format!("C09 seglog reopen with its live range {s},{e} panicked")),
            }
            if r.chance(1, 6) && e > 0 {
                let maxlen = *r.pick(&[1usize, 2, 3, 5, 100]);
                let ls = if r.chance(1, 2) { s } else { r.range(1, s as usize) as u64 };
                let scr = cx.scratch.clone();
                let res = std::panic::catch_unwind(std::panic::AssertUnwindSafe(|| rollback_read(maxlen as u32, &scr, ls, e)));
                let ans = match res {
                    Err(_) => "panic".to_string(),
                    Ok(Err(err)) => format!("err {}", err_kind(&err.root_cause().to_string())),
                    Ok(Ok(ids)) => {
                        if ids.len() > maxlen {
                            cx.out.fail(format!("C10 Rollback::read kept {} deltas, max_rollback_log_len {maxlen}", ids.len()));
                        }
                        if ids.last().map(|x| x.0) != Some(e) {
                            cx.out.fail(format!("C10 Rollback::read: newest delta {:?}, expected {e}", ids.last()));
                        }
                        if ids.is_empty() {
                            "ok -".to_string()
                        } else {
                            format!("ok {}", ids.iter().map(|(i, n)| format!("{i}:{n}")).collect::<Vec<_>>().join(","))
                        }
                    }
                };
                cx.out.line(format!("rbread {maxlen} {ls} {e}"), ans);
                cx.out.count("rollback_read");
            }
        }
    }
    if sig.len() > 3 {
        cx.out.nontrivial(&format!("{maxseg}:{sig}"));
    }
    drop(log);
    let _ = &cx.root;
}

/// crash images of `op` made by the real code on a copy: the op dies at effect k, optional torn tail, optional
/// interrupted recovery, then `open` with a range the store could hold at that moment
fn crash_probes(cx: &mut Ctx<'_>, r: &mut Rng, orc: &Oracle, op: &Op, s: u64, e: u64) {
    let nprobes = r.range(1, 4);
    for _ in 0..nprobes {
        let k = r.below(8);
        copy_dir(&cx.main, &cx.scratch);
        let before = seg_files(&cx.scratch);
        // the log on the copy (a clean open: no effect besides the no-op truncation of the head)
        arm(None);
        let mut l = match real_open(&cx.scratch, cx.maxseg, s, e) {
            OpenOut::Ok(l, _) => l,
            _ => {
                cx.out.fail(format!("C09 seglog cannot be reopened with its live range {s},{e} (crash probe)"));
                return;
            }
        };
        let _ = take_trace();
        arm(Some(k));
        let (ans, _) = real_op(&mut l, op);
        let tr = take_trace();
        let nev = if tr == "-" { 0 } else { tr.split('.').count() };
        drop(l);
        let completed = !ans.contains("injected");
        let after = seg_files(&cx.scratch);
        // ---- torn tail: cut the file the append was writing at a random byte of what it added
        let mut muts: Vec<String> = vec![];
        if let Op::Append(_) = op {
            if r.chance(1, 2) {
                if let Some(&(id, size)) = after.last() {
                    let old = before.iter().find(|x| x.0 == id).map(|x| x.1).unwrap_or(0);
                    if size > old {
                        let added = size - old;
                        let cut = match r.below(6) {
                            0 => r.range(1, 11.min(added as usize)) as u64, // inside the header: open is expected to fail
                            1 => 12.min(added),
                            2 => r.range(12.min(added as usize), 40.min(added as usize)) as u64,
                            3 => (added / ALIGN) * ALIGN,
                            _ => r.range(0, added as usize) as u64,
                        };
                        muts.push(format!("trunc:{id}:{}", old + cut));
                        cx.out.count(if cut == 0 {
                            "torn_cut_0"
                        } else if cut < 12 {
                            "torn_cut_inside_header"
                        } else if cut < added {
                            "torn_cut_after_header"
                        } else {
                            "torn_cut_full"
                        });
                    }
                }
            }
        }
        cx.apply_muts(&muts);
        let torn_header = muts.iter().any(|m| {
            let f: Vec<&str> = m.split(':').collect();
            let id: u64 = f[1].parse().unwrap();
            let n: u64 = f[2].parse().unwrap();
            let old = before.iter().find(|x| x.0 == id).map(|x| x.1).unwrap_or(0);
            n > old && n < old + 12
        });
        let cut_full = muts.is_empty() || {
            let f: Vec<&str> = muts[0].split(':').collect();
            let id: u64 = f[1].parse().unwrap();
            let n: u64 = f[2].parse().unwrap();
            after.iter().any(|x| x.0 == id && x.1 == n)
        };
        // ---- the range to recover with
        let (rs, re, must_lo, all): (u64, u64, u64, BTreeMap<u64, Vec<u8>>) = match op {
            Op::Append(p) => {
                if completed && cut_full && r.chance(1, 2) {
                    let mut all = orc.all.clone();
                    all.insert(e + 1, p.clone());
                    (if s == 0 { e + 1 } else { s }, e + 1, if s == 0 { e + 1 } else { orc.lo }, all)
                } else {
                    (s, e, orc.lo, orc.all.clone())
                }
            }
            Op::PruneOld(n) => {
                if r.chance(1, 2) {
                    (s, e, orc.lo.max(*n), orc.all.clone())
                } else {
                    (*n, e, orc.lo.max(*n), orc.all.clone())
                }
            }
            Op::PruneRecent(n) => {
                if *n == 0 {
                    (0, 0, 1, BTreeMap::new())
                } else {
                    let mut all = orc.all.clone();
                    all.retain(|id, _| id <= n);
                    (s, *n, orc.lo, all)
                }
            }
        };
        let j = if r.chance(1, 3) { Some(r.below(5)) } else { None };
        let (o, _tr2) = cx.open_image(j, rs, re);
        let line = format!("crash {k} {} {} {rs} {re} | {}", muts_str(&muts), opt_str(j), op.line());
        let scratch = cx.scratch.clone();
        // the number of effects of the complete operation is only known when it completed
        let n_str = if completed { format!("n={nev} ") } else { String::new() };
        let ans_line = format!("{n_str}{}", open_answer(&o, None, &scratch));
        cx.out.line(line.clone(), ans_line);
        cx.out.count("crash_probe");
        if j.is_some() {
            cx.out.count("crash_probe_nested");
        }
        if !completed {
            cx.out.count("crash_probe_interrupted");
        }
        cx.out.nontrivial(&format!("crash:{k}:{nev}:{}:{}", muts.len(), j.is_some()));
        match &o {
            OpenOut::Ok(_, recs) => {
                if torn_header {
                    cx.out.count("torn_header_accepted");
                }
                orc.check_open(cx.out, "C03", &line, recs, rs, re, must_lo, &all);
            }
            OpenOut::Err(kind) => {
                if torn_header && kind == "shortread" {
                    // 1..11 bytes of a header: `read_exact` fails; outside the quantifier (a 12-byte write at a page
                    // start is neither torn by a process crash nor by a page-aligned prefix)
                    cx.out.count("torn_header_rejected");
                } else {
                    cx.out.fail(format!("C03 seglog open failed on a crash image: {kind}: {line}"));
                }
            }
            OpenOut::Panic => cx.out.fail(format!("C03 seglog open panicked on a crash image: {line}")),
        }
    }
}

/// power-loss image of recovery itself: `open(s, e')` with `e' < e` completes on a copy (tail segments unlinked newest
/// first, head cut and fsynced), then a prefix of the tail segments — the unlinks issued last — comes back (no directory
/// fsync covers them); `open(s, e')` again must return the same records
fn reprobe(cx: &mut Ctx<'_>, r: &mut Rng, orc: &Oracle, s: u64, e: u64) {
    if e == 0 || s.max(orc.lo) > e {
        return;
    }
    let e2 = r.range(s.max(orc.lo) as usize, e as usize) as u64;
    copy_dir(&cx.main, &cx.scratch);
    let before = seg_files(&cx.scratch);
    arm(None);
    let first = real_open(&cx.scratch, cx.maxseg, s, e2);
    let _ = take_trace();
    let recs1 = match first {
        OpenOut::Ok(l, recs) => {
            drop(l);
            recs
        }
        _ => {
            cx.out.fail(format!("C03 seglog open({s},{e2}) failed on a consistent directory with range {s},{e}"));
            return;
        }
    };
    let after = seg_files(&cx.scratch);
    let last_kept = after.last().map(|x| x.0).unwrap_or(0);
    // the removed tail segments, oldest first; the ones unlinked LAST are the lowest ids: bring back a prefix
    let removed_tail: Vec<u64> = before.iter().map(|x| x.0).filter(|id| *id > last_kept).collect();
    let back = r.range(0, removed_tail.len());
    let ids: Vec<u64> = removed_tail[..back].to_vec();
    for id in &ids {
        std::fs::copy(seg_path(&cx.main, *id), seg_path(&cx.scratch, *id)).unwrap();
    }
    arm(None);
    let o = real_open(&cx.scratch, cx.maxseg, s, e2);
    let tr = take_trace();
    let scratch = cx.scratch.clone();
    let ids_s = if ids.is_empty() { "-".to_string() } else { ids.iter().map(|x| x.to_string()).collect::<Vec<_>>().join(".") };
    let line = format!("reprobe {s} {e2} {ids_s}");
    cx.out.line(line.clone(), open_answer(&o, Some(&tr), &scratch));
    cx.out.count("reprobe");
    cx.out.add("reprobe_segments_back", ids.len() as u64);
    match &o {
        OpenOut::Ok(_, recs) => {
            if recs_str(recs) != recs_str(&recs1) {
                cx.out.fail(format!("C04 seglog second recovery returned other records: {line}"));
            }
            let mut all = orc.all.clone();
            all.retain(|id, _| *id <= e2);
            orc.check_open(cx.out, "C04", &line, recs, s, e2, orc.lo, &all);
        }
        OpenOut::Err(k) => cx.out.fail(format!("C04 seglog open failed after a recovery whose unlinks were lost: {k}: {line}")),
        OpenOut::Panic => cx.out.fail(format!("C04 seglog open panicked: {line}")),
    }
    cx.out.nontrivial(&format!("reprobe:{}:{}", removed_tail.len(), back));
}

/// malformed / unusual images and ranges on a copy: the model must predict the verdict
fn probe(cx: &mut Ctx<'_>, r: &mut Rng, orc: &Oracle, s: u64, e: u64) {
    copy_dir(&cx.main, &cx.scratch);
    let files = seg_files(&cx.scratch);
    let mut muts: Vec<String> = vec![];
    let last = files.last().cloned();
    let first = files.first().cloned();
    let kind = r.below(12);
    let (mut ps, mut pe) = (s, e);
    match kind {
        0 => {
            // a gap: remove a middle (or any) file
            if !files.is_empty() {
                let f = files[r.below(files.len())];
                muts.push(format!("rm:{}", f.0));
            }
        }
        1 => {
            // missing head
            if let Some(f) = last {
                muts.push(format!("rm:{}", f.0));
            }
        }
        2 => {
            // cut the head anywhere (inside live records)
            if let Some(f) = last {
                muts.push(format!("trunc:{}:{}", f.0, r.range(0, f.1 as usize)));
            }
        }
        3 => {
            // cut a non-head file
            if files.len() > 1 {
                let f = files[r.below(files.len() - 1)];
                muts.push(format!("trunc:{}:{}", f.0, r.range(0, f.1 as usize)));
            }
        }
        4 => {
            // zero page(s) at the tail of the head
            if let Some(f) = last {
                if f.1 % ALIGN == 0 {
                    muts.push(format!("add:{}:0:-:-", f.0));
                    if r.chance(1, 2) {
                        muts.push(format!("add:{}:0:-:-", f.0));
                    }
                }
            }
        }
        5 => {
            // a record with a wrong id at the tail (not consecutive), complete or torn
            if let Some(f) = last {
                if f.1 % ALIGN == 0 {
                    let id = *r.pick(&[e, e + 2, e + 1, 1, e + 100]);
                    let p: Vec<u8> = (0..r.range(0, 40)).map(|_| r.next() as u8).collect();
                    let k = if r.chance(1, 2) { "-".to_string() } else { r.range(1, 12 + p.len() + 3).to_string() };
                    muts.push(format!("add:{}:{id}:{}:{k}", f.0, hex_or_dash(&p)));
                }
            }
        }
        6 => {
            // extra segments after the head: empty, with the next records, torn
            if let Some(f) = last {
                let id = f.0 + 1;
                muts.push(format!("new:{id}"));
                if r.chance(2, 3) {
                    let p: Vec<u8> = (0..r.range(0, 5000)).map(|_| r.next() as u8).collect();
                    let k = if r.chance(1, 2) { "-".to_string() } else { r.range(1, 12 + p.len() + 3).to_string() };
                    muts.push(format!("add:{id}:{}:{}:{k}", e + 1, hex_or_dash(&p)));
                }
                if r.chance(1, 3) {
                    muts.push(format!("new:{}", id + 1));
                }
            }
        }
        7 => {
            // an extra segment before the first one (a pruned file that came back), or one that leaves a gap
            if let Some(f) = first {
                if f.0 > 1 {
                    muts.push(format!("new:{}", if r.chance(3, 4) { f.0 - 1 } else { f.0.saturating_sub(2).max(1) }));
                }
            }
        }
        8 => {
            // segment id 0
            if files.iter().all(|f| f.0 != 0) {
                muts.push("new:0".to_string());
            }
        }
        9 => {
            // ranges the meta could not hold
            let c = r.below(6);
            (ps, pe) = match c {
                0 => (s, e + 1),
                1 => (e + 1, e + 1),
                2 => (s, 0),
                3 => (0, e),
                4 => (e, s.saturating_sub(1).max(1)),
                _ => (s + 1, e + 3),
            };
        }
        10 => {
            // start below / inside / at the end of what exists, end inside
            ps = r.range(1, e.max(1) as usize) as u64;
            pe = r.range(ps as usize, e.max(ps) as usize) as u64;
        }
        _ => {
            (ps, pe) = (0, 0);
        }
    }
    cx.apply_muts(&muts);
    let j = if r.chance(1, 4) { Some(r.below(4)) } else { None };
    let (o, tr) = cx.open_image(j, ps, pe);
    let scratch = cx.scratch.clone();
    let line = format!("probe {} {} {ps} {pe}", muts_str(&muts), opt_str(j));
    cx.out.line(line.clone(), open_answer(&o, Some(&tr), &scratch));
    cx.out.count(&format!("probe_kind_{kind}"));
    match &o {
        OpenOut::Ok(..) => cx.out.count("probe_accepted"),
        OpenOut::Err(k) => cx.out.count(&format!("probe_err_{}", k.split(':').next().unwrap_or(""))),
        OpenOut::Panic => cx.out.fail(format!("C09 seglog open panicked: {line}")),
    }
    cx.out.nontrivial(&format!("probe:{kind}:{}:{}", muts.len(), j.is_some()));
    let _ = orc;
}

/// `Delta::encode` / `decode`: round trip, and `decode` on malformed streams
fn run_delta(seed: u64, cases: usize, out: &mut Sink) {
    let mut rng = Rng::new(seed ^ 0xDE17A);
    for case in 0..cases {
        let mut r = rng.fork();
        let d = mk_delta(&mut r);
        let enc = delta_encode(d.clone());
        // the order the hash map was iterated in, read back from the encoding by the harness' own parser
        let (erase, reinstate) = parse_groups(&enc);
        let er = if erase.is_empty() { "-".to_string() } else { erase.iter().map(|k| hex(k)).collect::<Vec<_>>().join(",") };
        let re = if reinstate.is_empty() {
            "-".to_string()
        } else {
            reinstate.iter().map(|(k, v)| format!("{}:{}", hex(k), hex_or_dash(v))).collect::<Vec<_>>().join(",")
        };
        out.line(format!("deltaenc {er} {re}"), format!("ok {}:{:016x}", enc.len(), fnv(&enc)));
        out.count("delta_encode");
        // round trip oracle
        let mut bytes = enc.clone();
        let mutation = r.below(8);
        match mutation {
            0 | 1 => {}
            2 => bytes.extend((0..r.range(1, 40)).map(|_| r.next() as u8)), // trailing bytes are ignored
            3 => {
                let n = r.below(bytes.len() + 1);
                bytes.truncate(n);
            }
            4 => {
                // duplicate a key inside / across the groups
                if d.len() >= 2 {
                    let (mut e2, mut r2) = (erase.clone(), reinstate.clone());
                    let all: Vec<[u8; 32]> = d.iter().map(|x| x.0).collect();
                    let k = *r.pick(&all);
                    if r.chance(1, 2) {
                        e2.push(k);
                    } else {
                        r2.push((k, vec![1, 2, 3]));
                    }
                    bytes = enc_groups(&e2, &r2);
                }
            }
            5 => {
                // a count that is too large by one
                if bytes.len() >= 4 {
                    let c = u32::from_le_bytes(bytes[0..4].try_into().unwrap());
                    bytes[0..4].copy_from_slice(&(c + 1).to_le_bytes());
                }
            }
            6 => {
                // a value length that is too large
                if let Some((_, v)) = reinstate.last() {
                    let pos = bytes.len() - v.len() - 4;
                    bytes[pos..pos + 4].copy_from_slice(&((v.len() + r.range(1, 300)) as u32).to_le_bytes());
                }
            }
            _ => {
                if !bytes.is_empty() {
                    let i = r.below(bytes.len().min(8));
                    bytes[i] ^= 1 << r.below(3);
                }
            }
        }
        if declares_huge(&bytes) {
            // `decode` would `resize` a value buffer of up to 4 GiB before reading: skipped (cost only)
            out.count("delta_decode_huge_value_len_skipped");
            continue;
        }
        let res = std::panic::catch_unwind(|| delta_decode(&bytes));
        let ans = match res {
            Err(_) => {
                out.fail(format!("C09 Delta::decode panicked on {}", hex(&bytes)));
                "panic".to_string()
            }
            Ok(Err(e)) => format!("err {}", err_kind(&e.root_cause().to_string())),
            Ok(Ok(m)) => {
                if mutation <= 2 {
                    let mut a: Vec<_> = m.clone();
                    let mut b: Vec<_> = d.clone();
                    a.sort();
                    b.sort();
                    if a != b {
                        out.fail(format!("C09 Delta decode(encode(d)) != d for {}", hex(&enc)));
                    }
                }
                let mut items: Vec<String> = m
                    .iter()
                    .map(|(k, v)| match v {
                        None => format!("{}:-", hex(k)),
                        Some(v) => format!("{}:{}:{:016x}", hex(k), v.len(), fnv(v)),
                    })
                    .collect();
                items.sort();
                if items.is_empty() {
                    "ok -".to_string()
                } else {
                    format!("ok {}", items.join(","))
                }
            }
        };
        if mutation <= 2 && !ans.starts_with("ok") {
            out.fail(format!("C09 Delta::decode rejected an encoded delta: {ans}"));
        }
        out.line(format!("deltadec {}", hex_or_dash(&bytes)), ans);
        out.count(&format!("delta_decode_mut{mutation}"));
        out.nontrivial(&format!("delta:{case}:{mutation}:{}", d.len()));
    }
}

/// does `decode` meet a declared value length above 1 MiB on this stream?
fn declares_huge(b: &[u8]) -> bool {
    let rd32 = |pos: usize| -> Option<usize> { b.get(pos..pos + 4).map(|x| u32::from_le_bytes(x.try_into().unwrap()) as usize) };
    let Some(n) = rd32(0) else { return false };
    let mut pos = 4usize;
    for _ in 0..n {
        if pos + 32 > b.len() {
            return false;
        }
        pos += 32;
    }
    let Some(m) = rd32(pos) else { return false };
    pos += 4;
    for _ in 0..m {
        if pos + 32 > b.len() {
            return false;
        }
        pos += 32;
        let Some(l) = rd32(pos) else { return false };
        pos += 4;
        if l > (1 << 20) {
            return true;
        }
        if pos + l > b.len() {
            return false;
        }
        pos += l;
    }
    false
}

fn parse_groups(enc: &[u8]) -> (Vec<[u8; 32]>, Vec<([u8; 32], Vec<u8>)>) {
    let mut pos = 0;
    let rd32 = |pos: &mut usize| {
        let v = u32::from_le_bytes(enc[*pos..*pos + 4].try_into().unwrap()) as usize;
        *pos += 4;
        v
    };
    let n = rd32(&mut pos);
    let mut erase = vec![];
    for _ in 0..n {
        erase.push(enc[pos..pos + 32].try_into().unwrap());
        pos += 32;
    }
    let m = rd32(&mut pos);
    let mut re = vec![];
    for _ in 0..m {
        let k: [u8; 32] = enc[pos..pos + 32].try_into().unwrap();
        pos += 32;
        let l = rd32(&mut pos);
        re.push((k, enc[pos..pos + l].to_vec()));
        pos += l;
    }
    (erase, re)
}

fn enc_groups(erase: &[[u8; 32]], re: &[([u8; 32], Vec<u8>)]) -> Vec<u8> {
    let mut v = vec![];
    v.extend_from_slice(&(erase.len() as u32).to_le_bytes());
    for k in erase {
        v.extend_from_slice(k);
    }
    v.extend_from_slice(&(re.len() as u32).to_le_bytes());
    for (k, val) in re {
        v.extend_from_slice(k);
        v.extend_from_slice(&(val.len() as u32).to_le_bytes());
        v.extend_from_slice(val);
    }
    v
}
