//! C20: one directory has at most one live handle.
//! Real runs: second open in the same process / from another process / from racing threads while a
//! handle is alive (must fail and change no file), creation races on an empty directory (exactly one
//! winner), reopening right after drop / after a poisoned handle / after `kill -9` of the holder, and an
//! `strace` of a refused open (no mutating syscall on the directory).
use crate::db::{vhash, DbCfg};
use crate::iohook::{self, Loss, Mode};
use crate::util::*;
use nomt::hasher::Blake3Hasher;
use nomt::{KeyReadWrite, Nomt, SessionParams};
use std::collections::BTreeMap;
use std::process::Command;
use std::sync::{Arc, Barrier};

type Db = Nomt<Blake3Hasher>;

fn arg(args: &[String], name: &str) -> Option<String> {
    args.iter().position(|a| a == name).and_then(|i| args.get(i + 1).cloned())
}

/// content fingerprint of every file in the directory: name -> (len, hash of bytes)
fn dir_fingerprint(dir: &str) -> BTreeMap<String, (u64, [u8; 32])> {
    let mut m = BTreeMap::new();
    if let Ok(rd) = std::fs::read_dir(dir) {
        for e in rd.flatten() {
            let name = e.file_name().to_string_lossy().to_string();
            if let Ok(b) = std::fs::read(e.path()) {
                m.insert(name, (b.len() as u64, vhash(&b)));
            }
        }
    }
    m
}

fn cfg_for(rng: &mut Rng) -> DbCfg {
    let mut c = DbCfg::gen(rng);
    c.buckets = 4096;
    c
}

fn commit_some(db: &Db, rng: &mut Rng, n: usize) -> anyhow::Result<()> {
    let mut ws: Vec<(Key, KeyReadWrite)> = (0..n).map(|_| (rng.bytes32(), KeyReadWrite::Write(Some(vec![3u8; 50])))).collect();
    ws.sort_by(|a, b| a.0.cmp(&b.0));
    let s = db.begin_session(SessionParams::default());
    s.finish(ws)?.commit(db)
}

/// `flock-child --dir D --hold-ms N`: open; exit code 0 = opened (then holds for N ms), 9 = refused
pub fn child(args: &[String]) -> i32 {
    let dir = arg(args, "--dir").unwrap();
    let hold: u64 = arg(args, "--hold-ms").and_then(|s| s.parse().ok()).unwrap_or(0);
    let mut rng = Rng::new(5);
    let cfg = cfg_for(&mut rng);
    match Db::open(cfg.options(&dir)) {
        Ok(db) => {
            if let Some(f) = arg(args, "--ready-file") {
                let _ = std::fs::write(f, "ready");
            }
            std::thread::sleep(std::time::Duration::from_millis(hold));
            drop(db);
            0
        }
        Err(_) => 9,
    }
}

fn race_open(dir: &str, cfg: &DbCfg, threads: usize) -> (usize, Vec<Db>) {
    let barrier = Arc::new(Barrier::new(threads));
    let mut hs = vec![];
    for _ in 0..threads {
        let b = barrier.clone();
        let o = cfg.clone();
        let d = dir.to_string();
        hs.push(std::thread::spawn(move || {
            b.wait();
            Db::open(o.options(&d)).ok()
        }));
    }
    let mut dbs = vec![];
    for h in hs {
        if let Ok(Some(db)) = h.join() {
            dbs.push(db);
        }
    }
    (dbs.len(), dbs)
}

pub fn run(args: &[String], out: &mut Sink) {
    let seed: u64 = arg(args, "--seed").and_then(|s| s.parse().ok()).unwrap_or(1);
    let cases: usize = arg(args, "--cases").and_then(|s| s.parse().ok()).unwrap_or(4);
    let use_strace = !args.iter().any(|a| a == "--no-strace");
    let exe = std::env::current_exe().unwrap();
    let pid = std::process::id();
    let mut rng = Rng::new(seed);
    for case in 0..cases {
        let dir = format!("/dev/shm/nomt-verif-db-{pid}-flock-{seed}-{case}");
        let _ = std::fs::remove_dir_all(&dir);
        let cfg = cfg_for(&mut rng);
        out.mark_case(format!("flock case {case}"));
        // open attempts made per case: 6 (creation race) + 3 + 6 + 1 refused + strace + reopen + poison reopen + 2 around kill
        out.add("evaluations", 21);

        // ---- a storm of creation races on fresh directories: the window between "the directory is empty" and
        // "the lock file exists" is a few syscalls wide, so one race rarely lands in it.  After every race: at most
        // one winner; with a winner alive its files are there, a further open is refused, and what it commits
        // survives drop + reopen (nobody else may have touched the directory).
        let storm: usize = arg(args, "--storm").and_then(|s| s.parse().ok()).unwrap_or(40);
        for round in 0..storm {
            let sdir = format!("{dir}-storm{round}");
            let _ = std::fs::remove_dir_all(&sdir);
            if round % 2 == 1 {
                std::fs::create_dir_all(&sdir).unwrap();
            }
            let (winners, mut dbs) = race_open(&sdir, &cfg, 4);
            out.count("storm_races");
            if winners > 1 {
                out.fail(format!("C20 creation race (storm round {round}): {winners} of 4 racing opens succeeded, both handles alive at the same time"));
            }
            if let Some(db) = dbs.pop() {
                drop(dbs);
                out.count("storm_winners");
                for f in [".lock", "meta", "ht", "ln", "bbn"] {
                    if !std::path::Path::new(&format!("{sdir}/{f}")).exists() {
                        out.fail(format!("C20 after a creation race the winner's file `{f}` is gone while its handle is alive (storm round {round})"));
                    }
                }
                if Db::open(cfg.options(&sdir)).is_ok() {
                    out.fail(format!("C20 a second handle was handed out while the winner of a creation race is alive (storm round {round})"));
                }
                let k = [0x42u8; 32];
                let s = db.begin_session(SessionParams::default());
                let committed = s.finish(vec![(k, KeyReadWrite::Write(Some(vec![7u8; 9])))]).and_then(|f| f.commit(&db)).is_ok();
                drop(db);
                if committed {
                    let mut reopened = None;
                    for _ in 0..300 {
                        match Db::open(cfg.options(&sdir)) {
                            Ok(d) => {
                                reopened = Some(d);
                                break;
                            }
                            Err(_) => std::thread::sleep(std::time::Duration::from_millis(10)),
                        }
                    }
                    match reopened {
                        Some(d) => {
                            if d.read(k).ok().flatten() != Some(vec![7u8; 9]) {
                                out.fail(format!("C20 a value committed by the winner of a creation race is gone after drop + reopen (storm round {round})"));
                            }
                        }
                        None => out.fail(format!("C20 the directory of a creation-race winner cannot be reopened after drop (storm round {round})")),
                    }
                } else {
                    out.fail(format!("C20 winner of a creation race cannot commit (storm round {round})"));
                }
            } else {
                out.count("storm_no_winner");
            }
            let _ = std::fs::remove_dir_all(&sdir);
        }

        // ---- creation race on an empty / absent directory ----
        if case % 2 == 1 {
            std::fs::create_dir_all(&dir).unwrap(); // empty but existing
        }
        let (winners, mut dbs) = race_open(&dir, &cfg, 6);
        out.count("creation_races");
        out.nontrivial(&format!("create-race {seed} {case}"));
        if winners > 1 {
            out.fail(format!("C20 creation race on an empty directory: {winners} of 6 racing opens succeeded (at most one may)"));
        }
        if winners == 0 {
            // Known, documented TOCTOU in Store::open ("Deemed acceptable"): a racing opener can take the
            // lock of a half-created directory, making the creator fail, and then fail itself because `meta`
            // does not exist yet.  No handle results, so "at most one live handle" holds; recorded only.
            out.count("creation_race_no_winner");
        }
        let Some(db) = dbs.pop() else { continue };
        drop(dbs);
        if let Err(e) = commit_some(&db, &mut rng, 20) {
            out.fail(format!("C20 winner of the creation race cannot commit: {e:#}"));
        }

        // ---- while the handle is alive ----
        let before = dir_fingerprint(&dir);
        // same process
        for _ in 0..3 {
            if Db::open(cfg.options(&dir)).is_ok() {
                out.fail("C20 second open in the same process succeeded while a handle is alive".into());
            }
            out.count("refused_same_process");
        }
        // racing threads
        let (w, extra) = race_open(&dir, &cfg, 6);
        if w != 0 {
            out.fail(format!("C20 {w} of 6 racing opens succeeded while a handle is alive"));
        }
        drop(extra);
        // other process
        let rc = Command::new(&exe).arg("flock-child").args(["--dir", &dir]).status().ok().and_then(|s| s.code());
        out.count("refused_other_process");
        if rc != Some(9) {
            out.fail(format!("C20 open from another process while a handle is alive: exit {:?} (expected refusal)", rc));
        }
        let after = dir_fingerprint(&dir);
        if before != after {
            let changed: Vec<&String> = before.keys().chain(after.keys()).filter(|k| before.get(*k) != after.get(*k)).collect();
            out.fail(format!("C20 refused opens modified files: {:?}", changed));
        }
        out.nontrivial(&format!("refused {seed} {case}"));
        // the live handle still works
        if let Err(e) = commit_some(&db, &mut rng, 10) {
            out.fail(format!("C20 the live handle stopped working after refused opens: {e:#}"));
        }

        // ---- strace of a refused open: no mutating syscall on the directory ----
        if use_strace && case == 0 {
            let log = format!("{dir}.strace");
            let st = Command::new("strace")
                .args(["-f", "-o", &log, "-e", "trace=openat,open,creat,flock,write,pwrite64,pwritev,ftruncate,truncate,unlink,unlinkat,rename,renameat,renameat2,mkdir,mkdirat,fallocate,fsync,fdatasync"])
                .arg(&exe)
                .arg("flock-child")
                .args(["--dir", &dir])
                .stdout(std::process::Stdio::null())
                .stderr(std::process::Stdio::null())
                .status();
            match st {
                Ok(s) if s.code() == Some(9) => {
                    let txt = std::fs::read_to_string(&log).unwrap_or_default();
                    let mut bad = vec![];
                    let mut seen_flock_fail = false;
                    for l in txt.lines() {
                        let mentions = l.contains(&dir);
                        if l.contains("flock(") && l.contains("EAGAIN") {
                            seen_flock_fail = true;
                        }
                        let mutating = ["ftruncate(", "truncate(", "unlink(", "unlinkat(", "rename(", "renameat", "mkdir", "fallocate(", "pwrite64(", "pwritev("].iter().any(|p| l.contains(p));
                        if mutating && (mentions || l.contains("ftruncate(") || l.contains("pwrite64(")) {
                            bad.push(l.to_string());
                        }
                        if mentions && l.contains("openat(") {
                            let ok_target = l.contains(&format!("\"{dir}\"")) || l.contains(&format!("\"{dir}/.lock\""));
                            if !ok_target && !seen_flock_fail {
                                bad.push(format!("opened before the lock: {l}"));
                            }
                        }
                        if l.contains(" write(") || l.starts_with("write(") {
                            // writes only to stdout / stderr
                            let fd_ok = l.contains("write(1,") || l.contains("write(2,");
                            if !fd_ok {
                                bad.push(l.to_string());
                            }
                        }
                    }
                    if !seen_flock_fail {
                        out.fail("C20 strace: the refused open never reached a failing flock()".into());
                    }
                    if !bad.is_empty() {
                        out.fail(format!("C20 strace: a refused open issued mutating / premature syscalls: {:?}", &bad[..bad.len().min(4)]));
                    }
                    out.count("strace_checked");
                }
                Ok(s) => out.fail(format!("C20 strace child: unexpected exit {:?}", s.code())),
                Err(_) => out.count("strace_unavailable"),
            }
            let _ = std::fs::remove_file(&log);
        }

        // ---- drop, then reopen at once; no write may happen after drop returned ----
        drop(db);
        let f1 = dir_fingerprint(&dir);
        let t0 = std::time::Instant::now();
        let mut attempts = 0;
        let reopened = loop {
            attempts += 1;
            match Db::open(cfg.options(&dir)) {
                Ok(d) => break Some(d),
                Err(e) => {
                    if t0.elapsed().as_millis() > 3000 {
                        out.fail(format!("C20 the directory cannot be reopened 3 s after the handle was dropped: {e:#}"));
                        break None;
                    }
                    std::thread::sleep(std::time::Duration::from_micros(200));
                }
            }
        };
        out.count("reopen_after_drop");
        if attempts > 1 {
            out.add("reopen_after_drop_needed_retries", 1);
            out.add("reopen_retry_attempts", attempts - 1);
        }
        let f2 = dir_fingerprint(&dir);
        // the reopen itself must not have changed anything either (no recovery needed after a clean drop)
        if f1 != f2 {
            let changed: Vec<&String> = f1.keys().chain(f2.keys()).filter(|k| f1.get(*k) != f2.get(*k)).collect();
            out.fail(format!("C20 files changed after the handle was dropped (background writers still active, or reopen of a cleanly closed store writes): {:?}", changed));
        }
        let Some(db) = reopened else { continue };

        // ---- poisoned handle: drop, reopen ----
        iohook::install(Mode::Observe, Loss::None, None);
        let base = iohook::begins();
        iohook::set_mode(Mode::FailAt(base + 2 + (case as u64 % 5), false));
        let r = commit_some(&db, &mut rng, 10);
        iohook::set_mode(Mode::Off);
        let _ = iohook::uninstall();
        if r.is_err() && !db.is_poisoned() {
            out.fail("C14/C20 commit failed on an injected error but the handle is not poisoned".into());
        }
        let poisoned = db.is_poisoned();
        drop(db);
        let t0 = std::time::Instant::now();
        loop {
            match Db::open(cfg.options(&dir)) {
                Ok(d) => {
                    if poisoned {
                        out.count("reopen_after_poison");
                    }
                    drop(d);
                    break;
                }
                Err(e) => {
                    if t0.elapsed().as_millis() > 3000 {
                        out.fail(format!("C20 cannot reopen after a poisoned handle was dropped: {e:#}"));
                        break;
                    }
                    std::thread::sleep(std::time::Duration::from_micros(200));
                }
            }
        }

        // ---- holder killed with SIGKILL ----
        let ready = format!("{dir}.ready");
        let _ = std::fs::remove_file(&ready);
        // give the previous handle's threads a moment to release the lock
        std::thread::sleep(std::time::Duration::from_millis(20));
        if let Ok(mut ch) = Command::new(&exe).arg("flock-child").args(["--dir", &dir, "--hold-ms", "20000", "--ready-file", &ready]).spawn() {
            let t0 = std::time::Instant::now();
            while !std::path::Path::new(&ready).exists() && t0.elapsed().as_millis() < 5000 {
                std::thread::sleep(std::time::Duration::from_millis(2));
            }
            if std::path::Path::new(&ready).exists() {
                if Db::open(cfg.options(&dir)).is_ok() {
                    out.fail("C20 open succeeded while another process holds the directory".into());
                }
                unsafe { libc::kill(ch.id() as i32, libc::SIGKILL) };
                let _ = ch.wait();
                match Db::open(cfg.options(&dir)) {
                    Ok(d) => {
                        out.count("reopen_after_kill");
                        drop(d)
                    }
                    Err(e) => out.fail(format!("C20 cannot open the directory after its holder was killed: {e:#}")),
                }
            } else {
                let _ = ch.kill();
                let _ = ch.wait();
                out.fail("C20 holder child never became ready".into());
            }
            let _ = std::fs::remove_file(&ready);
        }
        std::thread::sleep(std::time::Duration::from_millis(20));
        let _ = std::fs::remove_dir_all(&dir);
    }
    out.samples.push(format!("flock: {} cases; per case: 6-thread creation race, 3 same-process + 6 racing + 1 other-process refused opens with directory fingerprint, strace of a refused open, reopen right after drop, after poison, after kill -9", cases));
}

/// C20 "…once the handle is dropped (normally, after a failed commit, or by process death) the directory can be opened again and
/// ALL BACKGROUND WRITERS OF THE OLD HANDLE HAVE FINISHED": a commit that fails fast with bucket exhaustion (16 buckets) poisons
/// the handle while the value store of the same commit has already queued thousands of page writes on the single I/O worker; the
/// handle is dropped while they are in flight and another thread spins on `Nomt::open` of the same directory.  From the moment that
/// open succeeds, no mutating file operation of the old handle may complete any more (observed through the I/O hook: every write
/// completion is an `End` event; the new handle is idle).  Found necessary by the seeded change `C20-lock-released-before-io-shutdown`.
pub fn drop_with_queued_writes(args: &[String], out: &mut Sink) {
    let seed: u64 = arg(args, "--seed").and_then(|s| s.parse().ok()).unwrap_or(1);
    let rounds: usize = arg(args, "--cases").and_then(|s| s.parse().ok()).unwrap_or(3);
    // the first `--early` rounds drop the handle at once (replay of the known finding F26: the orphaned task is then still ALLOCATING);
    // they stop as soon as the finding has shown once.  The other rounds drop in the middle of the queued page writes.
    let early: usize = arg(args, "--early").and_then(|s| s.parse().ok()).unwrap_or(0);
    let mut f26_seen = false;
    let pid = std::process::id();
    let mut rng = Rng::new(seed ^ 0xd20);
    for round in 0..rounds + early {
        let early_round = round < early;
        if early_round && f26_seen {
            continue;
        }
        let dir = format!("/dev/shm/nomt-verif-db-{pid}-flockq-{seed}-{round}");
        let _ = std::fs::remove_dir_all(&dir);
        out.mark_case(format!("flock drop-with-queued-writes round {round}"));
        let opts = |dir: &str| {
            let mut o = nomt::Options::new();
            o.path(dir);
            o.bitbox_seed([0; 16]);
            o.hashtable_buckets(16);
            o.commit_concurrency(16);
            o.io_workers(1);
            o.preallocate_ht(false);
            o
        };
        iohook::install(Mode::Observe, Loss::None, None);
        let db = match Db::open(opts(&dir)) {
            Ok(d) => d,
            Err(e) => {
                out.fail(format!("C20 queued-writes: cannot create the store: {e:#}"));
                let _ = iohook::uninstall();
                continue;
            }
        };
        // ~100 MiB of leaves (100 000 keys x 1000 bytes): far more merkle pages than 16 buckets
        let n = 100_000usize;
        let mut access: Vec<(Key, nomt::KeyReadWrite)> = (0..n)
            .map(|i| {
                let k = rng.bytes32();
                let v: Vec<u8> = (0..1000).map(|j| ((j ^ i) as u8) | 1).collect();
                (k, nomt::KeyReadWrite::Write(Some(v)))
            })
            .collect();
        access.sort_by_key(|(k, _)| *k);
        access.dedup_by_key(|(k, _)| *k);
        let s = db.begin_session(nomt::SessionParams::default());
        let r = match s.finish(access) {
            Ok(fin) => fin.commit(&db),
            Err(e) => Err(e),
        };
        if r.is_ok() {
            out.count("queued_writes_commit_unexpectedly_ok");
        } else if !db.is_poisoned() {
            out.fail("C14 commit failed with bucket exhaustion but the handle is not poisoned".into());
        }
        let (opened_tx, opened_rx) = std::sync::mpsc::channel::<u64>();
        let (dropped_tx, dropped_rx) = std::sync::mpsc::channel::<()>();
        let opener = {
            let dir = dir.clone();
            std::thread::spawn(move || {
                let t0 = std::time::Instant::now();
                let second = loop {
                    match Db::open(opts(&dir)) {
                        Ok(d) => break Some(d),
                        Err(_) if t0.elapsed().as_secs() < 60 => std::thread::yield_now(),
                        Err(_) => break None,
                    }
                };
                // we own the directory now: everything the hook has seen so far …
                let mark = iohook::log_len();
                let _ = opened_tx.send(mark as u64);
                let _ = dropped_rx.recv();
                std::thread::sleep(std::time::Duration::from_millis(300));
                // … must be everything (this handle is idle)
                let later = iohook::events_from(mark);
                (second.is_some(), later)
            })
        };
        std::thread::sleep(std::time::Duration::from_millis(5));
        if opened_rx.try_recv().is_ok() {
            out.fail("C20 queued-writes: a second open of the directory succeeded while the first handle is alive".into());
        }
        // drop the poisoned handle while the value writes of the failed commit are in flight: wait until the first 8 MiB of them
        // have reached `ln` (of ~100 MiB queued or about to be queued by the orphaned task)
        if !early_round {
            use std::os::unix::fs::MetadataExt;
            let t0 = std::time::Instant::now();
            while t0.elapsed().as_secs() < 5 {
                let blocks = std::fs::metadata(format!("{dir}/ln")).map(|m| m.blocks()).unwrap_or(0);
                if blocks >= 16384 {
                    out.count("queued_writes_dropped_mid_write");
                    break;
                }
                std::thread::yield_now();
            }
        }
        let inflight_at_drop = iohook::inflight();
        drop(db);
        let _ = dropped_tx.send(());
        let (opened, later) = opener.join().unwrap_or((false, vec![]));
        let _ = iohook::uninstall();
        if !opened {
            out.fail("C20 queued-writes: the directory could not be opened within 60 s after the poisoned handle was dropped".into());
        }
        // F26 (known finding): the orphaned beatree task of the FAILED commit may still extend a value file (`allocator.grow`, a plain
        // ftruncate) after the lock was released — reported separately from page writes / fsyncs completing late
        let grows: Vec<&String> = later.iter().filter(|l| l.contains("SetLen:allocator.grow")).collect();
        if !grows.is_empty() {
            f26_seen = true;
            out.fail(format!(
                "C20 F26 orphaned beatree sync task of a failed commit extended a value file after another open of the directory had succeeded: {} operations, first: {}",
                grows.len(),
                grows[0]
            ));
        }
        // only COMPLETIONS count (an `End` event: the operation really reached the file); a Begin of the orphaned task that dies on the
        // closed I/O pool is not a write
        let late: Vec<&String> = later.iter().filter(|l| l.starts_with("End:") && !l.contains("SetLen:allocator.grow") && (l.contains("Write") || l.contains("SetLen") || l.contains("Fsync"))).collect();
        out.add("queued_writes_inflight_at_drop", inflight_at_drop.max(0) as u64);
        out.count("queued_writes_rounds");
        if !late.is_empty() {
            out.fail(format!(
                "C20 background writers of the dropped handle were still running after another open of the directory had succeeded: {} file operations completed afterwards, first: {}",
                late.len(),
                late[0]
            ));
        }
        out.nontrivial(&format!("flockq {round} {inflight_at_drop}"));
        let _ = std::fs::remove_dir_all(&dir);
    }
}
