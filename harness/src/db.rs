//! History engine: drives the real `Nomt<Blake3Hasher>` through generated histories of the public API
//! (sessions, commits, overlays, stale / non-blocking commits, rollbacks, reopen with other
//! configurations) and
//!   * emits one protocol line per step for the Lean `api` model (correspondence, "K"),
//!   * checks every observation against a harness-side oracle that knows nothing of the model: a
//!     `BTreeMap` per committed state / overlay view, the reference trie of `util.rs`, and the real
//!     proof verifier ("O").
use crate::core_pp::{bitslice_str, term_str};
use crate::util::*;
use bitvec::prelude::*;
use nomt::hasher::Blake3Hasher;
use nomt::proof::PathProof;
use nomt::trie::LeafData;
use nomt::{KeyReadWrite, Nomt, Options, Overlay, Session, SessionParams, WitnessMode};
use nomt_core::hasher::ValueHasher;
use std::collections::{BTreeMap, VecDeque};
use std::panic::{catch_unwind, AssertUnwindSafe};

pub type Val = Vec<u8>;
pub type Map = BTreeMap<Key, Val>;
type Db = Nomt<Blake3Hasher>;

#[derive(Clone, Debug)]
pub struct DbCfg {
    pub workers: usize,
    pub buckets: u32,
    pub rollback: bool,
    pub maxlog: u32,
    pub warm_up: bool,
    pub page_cache: usize,
    pub leaf_cache: usize,
    pub io_workers: usize,
    pub prepopulate: bool,
    pub upper_levels: usize,
    pub seed: [u8; 16],
    /// creation-time options as PASSED at a reopen of an existing directory (they must be ignored: the values in the
    /// meta page count): `None` = pass the creation values again
    pub reopen_seed: Option<[u8; 16]>,
    pub reopen_buckets: Option<u32>,
}

impl DbCfg {
    pub fn gen(rng: &mut Rng) -> DbCfg {
        let mut seed = [0u8; 16];
        seed.copy_from_slice(&rng.bytes32()[..16]);
        DbCfg {
            workers: *rng.pick(&[1usize, 1, 2, 3, 4, 7, 8, 16, 64]),
            buckets: *rng.pick(&[4096u32, 8192, 16384, 64000]),
            rollback: true,
            maxlog: *rng.pick(&[1u32, 2, 3, 5, 100]),
            warm_up: rng.chance(1, 2),
            // 0 MiB = one page per shard (possible since the repair of F25): every page is re-read from the table all the time
            page_cache: *rng.pick(&[0usize, 1, 1, 4, 256]),
            leaf_cache: *rng.pick(&[1usize, 1, 4, 256]),
            io_workers: rng.range(1, 3),
            prepopulate: rng.chance(1, 2),
            upper_levels: rng.below(4),
            seed,
            reopen_seed: None,
            reopen_buckets: None,
        }
    }
    /// a different runtime configuration for the same directory (persistent parameters kept)
    pub fn regen(&self, rng: &mut Rng) -> DbCfg {
        let mut c = DbCfg::gen(rng);
        c.buckets = self.buckets;
        c.seed = self.seed;
        c.rollback = self.rollback;
        c.maxlog = self.maxlog;
        // every second reopen passes another hash-table seed / size than the directory was created with
        if rng.chance(1, 2) {
            let mut s = [0u8; 16];
            s.copy_from_slice(&rng.bytes32()[..16]);
            c.reopen_seed = Some(s);
            c.reopen_buckets = Some(*rng.pick(&[4096u32, 8192, 16384, 64000, 1000]));
        }
        c
    }
    pub fn options(&self, path: &str) -> Options {
        let mut o = Options::new();
        o.path(path);
        o.commit_concurrency(self.workers);
        o.hashtable_buckets(self.reopen_buckets.unwrap_or(self.buckets));
        o.bitbox_seed(self.reopen_seed.unwrap_or(self.seed));
        o.rollback(self.rollback);
        o.max_rollback_log_len(self.maxlog);
        o.warm_up(self.warm_up);
        o.page_cache_size(self.page_cache);
        o.leaf_cache_size(self.leaf_cache);
        o.io_workers(self.io_workers);
        o.prepopulate_page_cache(self.prepopulate);
        o.page_cache_upper_levels(self.upper_levels);
        o.preallocate_ht(false);
        o
    }
    pub fn describe(&self) -> String {
        format!(
            "workers={} buckets={} rollback={} maxlog={} warm_up={} pc={} lc={} io={} prepop={} upper={}",
            self.workers, self.buckets, self.rollback, self.maxlog, self.warm_up, self.page_cache, self.leaf_cache,
            self.io_workers, self.prepopulate, self.upper_levels
        )
    }
}

pub fn vhash(v: &[u8]) -> [u8; 32] {
    <Blake3Hasher as ValueHasher>::hash_value(v)
}

/// value lengths straddling the in-leaf / overflow boundaries (MAX_LEAF_VALUE_SIZE = 1332, overflow
/// page body 4092, 15 in-cell pointers)
pub fn gen_value(rng: &mut Rng, big: bool) -> Val {
    let len = match rng.below(20) {
        0 => 0,
        1 => 1,
        2 => rng.range(31, 33),
        3 => rng.range(1330, 1334),
        4 => rng.range(4090, 4094),
        5 if big => 15 * 4092 + rng.below(3) - 1,
        6 if big => 16 * 4092 + rng.below(3) - 1,
        7 if big => 65536 + rng.below(5000),
        8 => rng.range(1334, 9000),
        _ => rng.range(1, 64),
    };
    let mut v = vec![0u8; len];
    let mut x = rng.next();
    for b in v.iter_mut() {
        x = x.wrapping_mul(6364136223846793005).wrapping_add(1442695040888963407);
        *b = (x >> 33) as u8;
    }
    v
}

fn view_hashes(m: &Map) -> Vec<(Key, [u8; 32])> {
    m.iter().map(|(k, v)| (*k, vhash(v))).collect()
}

struct OvInfo {
    handle: Option<Overlay>,
    view: Map,
    changes: Vec<(Key, Option<Val>)>,
    parent: Option<usize>,
    /// all ancestors by recency (ids)
    ancestors: Vec<usize>,
    committed: bool,
    base_root: [u8; 32],
    root: [u8; 32],
    /// root epoch (number of changes of the committed root) when the overlay's session was finished — for the ABA test (F27)
    epoch_at_finish: u32,
}

struct FinInfo {
    fin: Option<nomt::FinishedSession>,
    writes: Vec<(Key, Option<Val>)>,
    view_after: Map,
    prev_root: [u8; 32],
    root: [u8; 32],
    chain: Vec<usize>,
    /// how many times the committed root had changed when the session was finished: a commit accepted at another count found its
    /// base root RESTORED (by a rollback, or by commits writing the old values back) — an "ABA" commit (known finding F27)
    seqn_at_finish: u32,
}

/// Boundary of one state-changing API call (commit, overlay commit, rollback, open): reported to an
/// optional process-global observer (used by the crash / fault checks to arm the I/O hook for exactly
/// one operation and to learn the oracle's state before and after it).
pub struct OpInfo<'m> {
    pub index: usize,
    pub starting: bool,
    pub what: &'m str,
    pub committed: &'m Map,
    pub seqn: u32,
    pub alive: bool,
    pub poisoned: bool,
    pub oracle_failures: &'m [String],
}
pub type OpObserver = Box<dyn FnMut(&OpInfo<'_>) + Send>;
pub static OP_OBSERVER: std::sync::Mutex<Option<OpObserver>> = std::sync::Mutex::new(None);

#[derive(Clone, Debug)]
pub enum ScriptOp {
    Commit(usize),
    Rollback(usize),
    Reopen,
    /// one commit inserting n fresh random keys with values of the given length
    Fill(usize, usize),
    /// one commit deleting every committed key
    DeleteAll,
    /// one commit inserting n fresh keys that all start with the two bytes 0xC3 0x5A (one sub-trie two page
    /// levels below the root page) with small values
    FillCluster(usize),
    /// one commit deleting n committed keys of that cluster
    DeleteCluster(usize),
    /// one commit that deletes EVERY committed key of the cluster 0xC3 0x5A 00…… and inserts n fresh keys whose 19th bit is `half`:
    /// all keys of the cluster share 18 bits (one depth-3 page), so the commit empties one first-layer slot of that page
    /// and fills the other one
    FlipCluster(usize, u8),
    /// one commit inserting one fresh random key per listed value length
    FillLens(&'static [usize]),
    /// one commit deleting every committed key whose value has exactly this length
    DeleteLen(usize),
}

/// directed histories selectable with `--focus script-…`
pub fn script_for(focus: &str) -> Option<Vec<ScriptOp>> {
    use ScriptOp::*;
    match focus {
        // 7 commits = 4 rollback segments of two records (8 KiB segments), then a rollback that drops
        // several whole tail segments, then more activity
        "script-rollback-multi-segment" => Some(vec![Commit(3), Commit(2), Commit(4), Commit(2), Commit(3), Commit(2), Commit(3), Rollback(5), Commit(2), Rollback(1), Reopen, Rollback(2)]),
        // the log start is pruned past whole segments (maxlog 3), then everything retained is rolled back
        "script-prune-then-rollback-all" => Some(vec![Commit(2), Commit(2), Commit(2), Commit(2), Commit(2), Commit(2), Commit(2), Rollback(3), Reopen, Commit(2), Rollback(1)]),
        // a free list longer than one page (> 1022 freed leaf pages), then many small commits that drain its head
        // portion one page at a time across the page boundary, refill it and drain it again
        "script-freelist-two-pages" => {
            let mut v = vec![Fill(3300, 1300), DeleteAll];
            for round in 0..3 {
                for _ in 0..70 {
                    v.push(Fill(3, 1300));
                }
                if round < 2 {
                    v.push(DeleteAll);
                    v.push(Reopen);
                }
            }
            Some(v)
        }
        // the shape of the seeded change `C17-freelist-loop-release-flag`: a free list of one full page + a head page with 3 entries, then ONE
        // commit that takes one page and frees more than two free-list pages' worth (the head page is vacated INSIDE the loop of
        // `FreeList::preallocate` while a full on-disk page lies below it)
        "script-freelist-vacate-in-loop" => Some(vec![FillLens(&[100, 4092 * 1023 - 100, 4092 * 2100 - 100]), DeleteLen(4092 * 1023 - 100), DeleteLen(4092 * 2100 - 100), Fill(1, 100)]),
        // a free list of several pages (> 1022 freed leaf pages) is written, read back by a reopen (the portions of a
        // multi-page list must come back in the same order), drained and refilled by commits after further reopens
        "script-freelist-reopen" => Some(vec![Fill(3300, 1300), DeleteAll, Reopen, Fill(40, 1300), Reopen, Fill(40, 1300), Fill(900, 1300), DeleteAll, Reopen, Fill(300, 1300), Reopen, Fill(30, 700),
            // … and after a reopen ONE commit needs more pages than the list read back holds (the cached length decides between list and frontier)
            DeleteAll, Reopen, Fill(5000, 1300)]),
        // a sub-trie two page levels down crosses the page-elision threshold (20 leaves) upwards, downwards and
        // upwards again: pages that were elided get materialised (their WAL diff must carry the reconstructed
        // nodes) and materialised ones get elided
        // a stored depth-3 page whose keys all live under ONE of its two first-layer slots; a single commit deletes them all and inserts
        // more than the elision threshold under the OTHER slot (the emptied slot is written while its sibling is still a terminator;
        // the page stays stored), back and forth, across a reopen
        "script-clear-then-change" => Some(vec![Fill(40, 40), FlipCluster(25, 0), FlipCluster(25, 1), FlipCluster(23, 0), Reopen, FlipCluster(26, 1), FlipCluster(21, 0)]),
        // stored pages are CLEARED (tombstoned) by a commit: a cluster well above the elision threshold is deleted entirely, rebuilt and
        // deleted again after a reopen — with a crash between the manifest write and the table write-out the tombstones exist only in the
        // redo log, and recovery must persist them (seeded change `C10-recover-clear-tombstone-not-written`)
        "script-clear-pages" => Some(vec![Fill(40, 40), FillCluster(30), DeleteCluster(30), FillCluster(25), Reopen, DeleteCluster(25), FillCluster(3)]),
        "script-elision-threshold" => Some(vec![Fill(40, 40), FillCluster(19), FillCluster(2), DeleteCluster(4), FillCluster(6), Reopen, FillCluster(1), DeleteCluster(9), FillCluster(12)]),
        _ => None,
    }
}

pub struct Engine<'a> {
    pub rng: Rng,
    pub out: &'a mut Sink,
    pub cfg: DbCfg,
    pub dir: String,
    db: Option<Db>,
    committed: Map,
    /// previous committed states, oldest first, bounded by maxlog (oracle of rollback)
    snaps: VecDeque<Map>,
    seqn: u32,
    ovs: Vec<OvInfo>,
    fins: Vec<FinInfo>,
    last_marker: Option<usize>,
    pub pool: Vec<Key>,
    next_sid: usize,
    pub big: bool,
    /// set after an accepted "ABA" commit (known finding F27): no further operations in this history
    pub aba_stop: bool,
    root_epoch: u32,
    last_root: [u8; 32],
    pub scale: usize,
    pub always_preserve: bool,
    pub no_dread: bool,
    pub keep_dir: bool,
    pub op_index: usize,
    pub matrix_variant: Option<usize>,
    pub witness_on: bool,
    pub dense: bool,
    pub script: Option<Vec<ScriptOp>>,
    pub force_witness: bool,
    pub events: BTreeMap<String, u64>,
    /// C16 image mode: when set, every quiescent point (`check_committed`) hands the directory and
    /// the oracle's committed map to `image::snapshot` (behaviour is unchanged when `None`)
    pub image_sink: Option<crate::image::Snapshots>,
    /// take an image snapshot only at every n-th quiescent point (0 / 1 = every one)
    pub snapshot_every: usize,
    quiescent_points: usize,
    /// C16 image mode: mostly 600..1300-byte inline values, so that leaves hold 3-4 keys and a few
    /// thousand keys need several bottom-level branch nodes (default false: unchanged generator)
    pub fat_values: bool,
    /// keys the next session probe must query (read + prove) in addition to its random ones
    pub probe_extra: Vec<Key>,
}

fn chance_list<T: Clone>(rng: &mut Rng, v: &[T]) -> T {
    v[rng.below(v.len())].clone()
}

impl<'a> Engine<'a> {
    pub fn new(rng: Rng, out: &'a mut Sink, cfg: DbCfg, dir: String, big: bool) -> Self {
        let _ = std::fs::remove_dir_all(&dir);
        let mut e = Engine {
            rng,
            out,
            cfg,
            dir,
            db: None,
            committed: Map::new(),
            snaps: VecDeque::new(),
            seqn: 0,
            ovs: vec![],
            fins: vec![],
            last_marker: None,
            pool: vec![],
            next_sid: 0,
            big,
            aba_stop: false,
            root_epoch: 0,
            last_root: [0u8; 32],
            scale: 1,
            always_preserve: false,
            no_dread: false,
            keep_dir: false,
            op_index: 0,
            matrix_variant: None,
            witness_on: false,
            dense: false,
            script: None,
            force_witness: false,
            events: BTreeMap::new(),
            image_sink: None,
            snapshot_every: 1,
            quiescent_points: 0,
            fat_values: FAT.load(std::sync::atomic::Ordering::Relaxed),
            probe_extra: vec![],
        };
        e.pool = gen_keyset(&mut e.rng, 40);
        e.open_db();
        e.out.line(
            format!("init {} {}", if e.cfg.rollback { 1 } else { 0 }, e.cfg.maxlog),
            "ok".into(),
        );
        e
    }

    fn ev(&mut self, k: &str) {
        *self.events.entry(k.to_string()).or_insert(0) += 1;
        self.out.count(k);
    }

    fn open_db(&mut self) {
        // The directory lock of a dropped handle is released by whichever background thread drops the
        // last reference to the store, i.e. slightly after `drop(Nomt)` returns (observed; this is
        // C20's subject and is measured there).  Here the open is retried for a bounded time so that
        // this does not mask what the other properties look at.
        let t0 = std::time::Instant::now();
        loop {
            let o = self.cfg.options(&self.dir);
            match catch_unwind(AssertUnwindSafe(|| Db::open(o))) {
                Ok(Ok(db)) => {
                    self.db = Some(db);
                    return;
                }
                Ok(Err(e)) => {
                    let msg = format!("{e:#}");
                    if msg.contains("lock") && t0.elapsed().as_millis() < 5000 {
                        self.out.count("open_retried_lock_still_held");
                        std::thread::sleep(std::time::Duration::from_millis(2));
                        continue;
                    }
                    self.out.fail(format!("OPEN FAILED: {msg} cfg={}", self.cfg.describe()));
                    return;
                }
                Err(_) => {
                    self.out.fail(format!("OPEN PANICKED cfg={}", self.cfg.describe()));
                    return;
                }
            }
        }
    }

    pub fn alive(&self) -> bool {
        self.db.is_some()
    }

    fn op_boundary(&mut self, starting: bool, what: &str) {
        let mut g = OP_OBSERVER.lock().unwrap();
        if let Some(f) = g.as_mut() {
            let info = OpInfo {
                index: self.op_index,
                starting,
                what,
                committed: &self.committed,
                seqn: self.seqn,
                alive: self.db.is_some(),
                poisoned: self.db.as_ref().map_or(false, |d| d.is_poisoned()),
                oracle_failures: &self.out.oracle_failures,
            };
            f(&info);
        }
        drop(g);
        if !starting {
            self.op_index += 1;
            // root epoch: how many times the committed root has CHANGED so far (for the ABA test of known finding F27)
            if let Some(d) = self.db.as_ref() {
                let r = d.root().into_inner();
                if r != self.last_root {
                    self.last_root = r;
                    self.root_epoch += 1;
                }
            }
        }
    }

    /// oracle view of the committed state (for the crash / fault checks)
    pub fn committed_snapshot(&self) -> (Map, u32) {
        (self.committed.clone(), self.seqn)
    }

    pub fn is_poisoned(&self) -> bool {
        self.db.as_ref().map_or(false, |d| d.is_poisoned())
    }

    /// leave the directory on disk (crash children exit without cleaning up)
    pub fn forget_dir(&mut self) {
        self.keep_dir = true;
    }

    fn db(&self) -> &Db {
        self.db.as_ref().unwrap()
    }

    fn gen_key(&mut self) -> Key {
        if self.dense && !self.pool.is_empty() && self.rng.chance(9, 10) {
            // dense mode: a tiny key universe, so that successive batches / overlays keep touching
            // neighbouring keys under the same terminals and elided sub-tries
            return *self.rng.pick(&self.pool);
        }
        match self.rng.below(5) {
            0 => self.rng.bytes32(),
            1 if !self.pool.is_empty() => {
                let base = *self.rng.pick(&self.pool);
                let d = interesting_depth(&mut self.rng);
                let k = diverge_at(&mut self.rng, &base, d);
                self.pool.push(k);
                k
            }
            _ if !self.pool.is_empty() => *self.rng.pick(&self.pool),
            _ => self.rng.bytes32(),
        }
    }

    /// a batch over the given view: (key, access) sorted by key, plus the write list
    fn gen_val(&mut self) -> Val {
        if self.fat_values && self.rng.chance(3, 4) {
            let len = self.rng.range(600, 1300);
            let mut v = gen_value(&mut self.rng, false);
            v.resize(len, 0x5a);
            return v;
        }
        gen_value(&mut self.rng, self.big)
    }

    fn gen_batch(&mut self, view: &Map, max: usize) -> (Vec<(Key, KeyReadWrite)>, Vec<(Key, Option<Val>)>) {
        let n = self.rng.range(1, (max * self.scale).max(1));
        let mut acc: BTreeMap<Key, KeyReadWrite> = BTreeMap::new();
        let existing: Vec<Key> = view.keys().cloned().collect();
        for _ in 0..n {
            let use_existing = !existing.is_empty() && self.rng.chance(1, 2);
            let k = if use_existing { *self.rng.pick(&existing) } else { self.gen_key() };
            let cur = view.get(&k).cloned();
            let a = match self.rng.below(10) {
                0 | 1 => KeyReadWrite::Read(cur),
                2 | 3 => KeyReadWrite::Write(None),
                4 => KeyReadWrite::ReadThenWrite(cur, None),
                5 => KeyReadWrite::ReadThenWrite(cur, Some(self.gen_val())),
                _ => KeyReadWrite::Write(Some(self.gen_val())),
            };
            acc.insert(k, a);
        }
        let actuals: Vec<(Key, KeyReadWrite)> = acc.into_iter().collect();
        let writes = actuals
            .iter()
            .filter_map(|(k, a)| match a {
                KeyReadWrite::Write(v) | KeyReadWrite::ReadThenWrite(_, v) => Some((*k, v.clone())),
                _ => None,
            })
            .collect();
        (actuals, writes)
    }

    fn writes_line(ws: &[(Key, Option<Val>)]) -> String {
        let ops: Vec<(Key, Option<[u8; 32]>)> = ws.iter().map(|(k, v)| (*k, v.as_ref().map(|v| vhash(v)))).collect();
        ops_line(&ops)
    }

    fn apply(view: &Map, ws: &[(Key, Option<Val>)]) -> Map {
        let mut m = view.clone();
        for (k, v) in ws {
            match v {
                Some(v) => {
                    m.insert(*k, v.clone());
                }
                None => {
                    m.remove(k);
                }
            }
        }
        m
    }

    fn chain_view(&self, chain: &[usize]) -> Map {
        match chain.first() {
            Some(&p) => self.ovs[p].view.clone(),
            None => self.committed.clone(),
        }
    }

    fn ids_str(chain: &[usize]) -> String {
        if chain.is_empty() {
            "-".into()
        } else {
            chain.iter().map(|i| i.to_string()).collect::<Vec<_>>().join(",")
        }
    }

    /// live (held, uncommitted) chain starting at overlay `tip`, child first
    fn live_chain(&self, tip: usize) -> Vec<usize> {
        let mut c = vec![tip];
        for &a in &self.ovs[tip].ancestors {
            if self.ovs[a].committed || self.ovs[a].handle.is_none() {
                break;
            }
            c.push(a);
        }
        c
    }

    /// is the fork ending in `tip` still based on the current committed state?  (Sessions on abandoned
    /// forks have no specified behaviour; the engine only checks that they cannot be committed.)
    fn fork_valid(&self, tip: usize) -> bool {
        let c = self.live_chain(tip);
        let last = *c.last().unwrap();
        self.db.is_some() && self.ovs[last].base_root == self.db().root().into_inner()
    }

    /// begin a session on the given overlay ids (child first); returns the session and the view
    fn begin(&mut self, chain: &[usize]) -> Option<(usize, Session<Blake3Hasher>)> {
        let sid = self.next_sid;
        self.next_sid += 1;
        let on = self.rng.chance(1, 2) || self.force_witness;
        self.witness_on = on;
        let witness = if on { WitnessMode::read_write() } else { WitnessMode::disabled() };
        let params = {
            let refs: Vec<&Overlay> = chain.iter().filter_map(|&i| self.ovs[i].handle.as_ref()).collect();
            SessionParams::default().witness_mode(witness).overlay(refs)
        };
        let op = format!("begin {} {}", sid, Self::ids_str(chain));
        match params {
            Ok(p) => {
                let s = self.db().begin_session(p);
                self.out.line(op, "ok".into());
                Some((sid, s))
            }
            Err(e) => {
                self.out.line(op, format!("err {:?}", e));
                self.ev("begin_refused");
                None
            }
        }
    }

    /// reads and proofs through a session, checked against the oracle view
    fn probe(&mut self, sid: usize, s: &Session<Blake3Hasher>, view: &Map, nq: usize) {
        let hashes = view_hashes(view);
        let root = s.prev_root().into_inner();
        let expect_root = ref_root(&hashes);
        if root != expect_root {
            self.out.fail(format!(
                "C02 session base root {} != reference root {} of the expected view ({} keys)",
                hex(&root), hex(&expect_root), view.len()
            ));
        }
        let extra: Vec<Key> = std::mem::take(&mut self.probe_extra);
        for qi in 0..nq + extra.len() {
            let k = if qi >= nq {
                extra[qi - nq]
            } else if !view.is_empty() && self.rng.chance(2, 3) {
                let base = *self.rng.pick(&view.keys().cloned().collect::<Vec<_>>());
                match self.rng.below(3) {
                    0 => base,
                    1 => {
                        let d = interesting_depth(&mut self.rng);
                        diverge_at(&mut self.rng, &base, d)
                    }
                    _ => {
                        let (_, sibs) = ref_prove(&hashes, &base);
                        let d = (sibs.len() + self.rng.below(3)).min(255);
                        diverge_at(&mut self.rng, &base, d)
                    }
                }
            } else {
                self.gen_key()
            };
            // read
            match catch_unwind(AssertUnwindSafe(|| s.read(k))) {
                Ok(Ok(v)) => {
                    if v.as_ref() != view.get(&k) {
                        self.out.fail(format!(
                            "C01 session read of {} returned len {:?} expected len {:?}",
                            hex(&k), v.as_ref().map(|v| v.len()), view.get(&k).map(|v| v.len())
                        ));
                    }
                    self.out.line(
                        format!("read {} {}", sid, hex(&k)),
                        v.map(|v| hex(&vhash(&v))).unwrap_or("-".into()),
                    );
                }
                Ok(Err(e)) => self.out.fail(format!("C01 session read error {e:#}")),
                Err(_) => self.out.fail(format!("C01 session read PANIC key {}", hex(&k))),
            }
            // prove
            if qi >= nq || self.rng.chance(2, 3) {
                match catch_unwind(AssertUnwindSafe(|| s.prove(k))) {
                    Ok(Ok(p)) => {
                        self.check_proof(&p, &k, root, view);
                        self.out.line(
                            format!("prove {} {}", sid, hex(&k)),
                            format!("{} {}", term_str(&p.terminal), nodes_line(&p.siblings)),
                        );
                        self.ev("proofs");
                    }
                    Ok(Err(e)) => self.out.fail(format!("C05 prove error {e:#}")),
                    Err(_) => self.out.fail(format!("C05 prove PANIC key {}", hex(&k))),
                }
            }
        }
    }

    /// C06: the witness must verify against the base root, attest every read with the value the session
    /// saw, cover every written key, and replaying the writes with `verify_update` must give the new root.
    #[allow(clippy::too_many_arguments)]
    fn check_witness(
        &mut self,
        fid: usize,
        w: &nomt::Witness,
        prev_root: [u8; 32],
        new_root: [u8; 32],
        view: &Map,
        reads: &[(Key, Option<[u8; 32]>)],
        writes: &[(Key, Option<Val>)],
    ) {
        use nomt::proof::{verify_update, PathUpdate};
        self.ev("witnesses");
        let np = w.path_proofs.len();
        let mut verified = Vec::new();
        for (i, wp) in w.path_proofs.iter().enumerate() {
            match wp.inner.verify::<Blake3Hasher>(wp.path.path(), prev_root) {
                Ok(v) => verified.push(Some(v)),
                Err(e) => {
                    self.out.fail(format!("C06 witness path {i} does not verify against the session's base root: {e:?} (workers={})", self.cfg.workers));
                    verified.push(None);
                }
            }
        }
        // reads: exactly the session's reads, each attested by its path with the value the session saw
        let mut wreads: Vec<(Key, Option<[u8; 32]>)> = w.operations.reads.iter().map(|r| (r.key, r.value)).collect();
        wreads.sort();
        let mut exp = reads.to_vec();
        exp.sort();
        if wreads != exp {
            self.out.fail(format!("C06 witnessed reads differ from what the session read ({} vs {} entries, workers={})", wreads.len(), exp.len(), self.cfg.workers));
        }
        for r in &w.operations.reads {
            let ok = r.path_index < np
                && match (&verified[r.path_index], r.value) {
                    (Some(v), Some(vh)) => v.confirm_value(&LeafData { key_path: r.key, value_hash: vh }).ok() == Some(true),
                    (Some(v), None) => v.confirm_nonexistence(&r.key).ok() == Some(true),
                    _ => false,
                };
            if !ok {
                self.out.fail(format!(
                    "C06 witnessed read of {} (path_index {}) is not confirmed by its path (workers={}, paths={})",
                    &hex(&r.key)[..16], r.path_index, self.cfg.workers, np
                ));
                break;
            }
            if view.get(&r.key).map(|v| vhash(v)) != r.value {
                self.out.fail(format!("C06 witnessed read value of {} differs from the session's view", &hex(&r.key)[..16]));
            }
        }
        // writes: exactly the session's writes
        let mut wwrites: Vec<(Key, Option<[u8; 32]>)> = w.operations.writes.iter().map(|x| (x.key, x.value)).collect();
        wwrites.sort();
        let mut expw: Vec<(Key, Option<[u8; 32]>)> = writes.iter().map(|(k, v)| (*k, v.as_ref().map(|v| vhash(v)))).collect();
        expw.sort();
        if wwrites != expw {
            self.out.fail(format!("C06 witnessed writes differ from the session's writes ({} vs {}, workers={})", wwrites.len(), expw.len(), self.cfg.workers));
        }
        // replay
        let mut updates: Vec<PathUpdate> = Vec::new();
        let mut all_ok = true;
        for (i, v) in verified.into_iter().enumerate() {
            let mut ops: Vec<(Key, Option<[u8; 32]>)> = w.operations.writes.iter().filter(|x| x.path_index == i).map(|x| (x.key, x.value)).collect();
            ops.sort();
            match v {
                Some(v) if !ops.is_empty() => updates.push(PathUpdate { inner: v, ops }),
                Some(_) => {}
                None => all_ok = false,
            }
        }
        if w.operations.writes.iter().any(|x| x.path_index >= np) {
            self.out.fail("C06 witnessed write with a path_index out of range".into());
            all_ok = false;
        }
        updates.sort_by(|a, b| a.inner.path().cmp(b.inner.path()));
        if all_ok {
            match catch_unwind(AssertUnwindSafe(|| verify_update::<Blake3Hasher>(prev_root, &updates))) {
                Ok(Ok(r)) => {
                    if r != new_root {
                        self.out.fail(format!("C06 replaying the witnessed writes gives root {} but the store reported {}", hex(&r), hex(&new_root)));
                    }
                }
                Ok(Err(e)) => self.out.fail(format!(
                    "C06 witness does not replay: verify_update fails with {e:?} (workers={}, paths={}, writes={})",
                    self.cfg.workers, np, w.operations.writes.len()
                )),
                Err(_) => self.out.fail(format!("C06 verify_update PANICS on the produced witness (workers={})", self.cfg.workers)),
            }
        }
        // canonical form for the model: paths ascending, operations ascending by key
        let mut items: Vec<(String, String)> = Vec::new();
        for (i, wp) in w.path_proofs.iter().enumerate() {
            let fmt_ops = |ops: Vec<(Key, Option<[u8; 32]>)>| {
                if ops.is_empty() {
                    "-".to_string()
                } else {
                    ops.iter().map(|(k, v)| format!("{}:{}", hex(k), v.map(|v| hex(&v)).unwrap_or("-".into()))).collect::<Vec<_>>().join(",")
                }
            };
            let mut rs: Vec<(Key, Option<[u8; 32]>)> = w.operations.reads.iter().filter(|x| x.path_index == i).map(|x| (x.key, x.value)).collect();
            rs.sort();
            let mut ws: Vec<(Key, Option<[u8; 32]>)> = w.operations.writes.iter().filter(|x| x.path_index == i).map(|x| (x.key, x.value)).collect();
            ws.sort();
            let bits = bitslice_str(wp.path.path());
            items.push((
                bits.clone(),
                format!("{};{};{};r={};w={}", bits, term_str(&wp.inner.terminal), nodes_line(&wp.inner.siblings), fmt_ops(rs), fmt_ops(ws)),
            ));
        }
        items.sort_by(|a, b| {
            let (x, y) = (if a.0 == "-" { "" } else { &a.0 }, if b.0 == "-" { "" } else { &b.0 });
            x.cmp(y)
        });
        let rk = if reads.is_empty() { "-".to_string() } else { reads.iter().map(|(k, _)| hex(k)).collect::<Vec<_>>().join(",") };
        let canon = if items.is_empty() { "-".to_string() } else { items.into_iter().map(|x| x.1).collect::<Vec<_>>().join("#") };
        self.out.line(format!("witness {} {}", fid, rk), canon);
    }

    fn check_proof(&mut self, p: &PathProof, k: &Key, root: [u8; 32], view: &Map) {
        match p.verify::<Blake3Hasher>(k.view_bits::<Msb0>(), root) {
            Ok(v) => match view.get(k) {
                Some(val) => {
                    let leaf = LeafData { key_path: *k, value_hash: vhash(val) };
                    if v.confirm_value(&leaf).ok() != Some(true) {
                        self.out.fail(format!("C05 proof of present key {} does not confirm its value", hex(k)));
                    }
                }
                None => {
                    if v.confirm_nonexistence(k).ok() != Some(true) {
                        self.out.fail(format!("C05 proof of absent key {} does not confirm non-existence", hex(k)));
                    }
                }
            },
            Err(e) => self.out.fail(format!(
                "C05 proof of key {} does not verify against the session root: {:?} (path {})",
                hex(k), e, bitslice_str(p.terminal.path())
            )),
        }
    }

    /// begin / probe / finish.  Returns the index into `fins`.
    fn session_to_fin(&mut self, chain: &[usize], nq: usize, maxbatch: usize) -> Option<usize> {
        self.session_to_fin_with(chain, nq, maxbatch, None)
    }

    /// explicit write list (directed scenarios of `corpus`)
    pub fn session_writes(&mut self, chain: &[usize], ws: &[(Key, Option<Val>)]) -> Option<usize> {
        self.session_to_fin_with(chain, 0, 0, Some(ws.to_vec()))
    }

    fn session_to_fin_with(&mut self, chain: &[usize], nq: usize, maxbatch: usize, explicit: Option<Vec<(Key, Option<Val>)>>) -> Option<usize> {
        let view = self.chain_view(chain);
        let (sid, s) = self.begin(chain)?;
        self.probe(sid, &s, &view, nq);
        let (actuals, writes) = match explicit {
            Some(mut ws) => {
                ws.sort_by(|a, b| a.0.cmp(&b.0));
                (ws.iter().map(|(k, v)| (*k, KeyReadWrite::Write(v.clone()))).collect(), ws)
            }
            None => self.gen_batch(&view, maxbatch),
        };
        for (k, a) in &actuals {
            if self.rng.chance(1, 2) {
                s.warm_up(*k);
            }
            if a.is_write() && (self.always_preserve || self.rng.chance(1, 3)) {
                s.preserve_prior_value(*k);
            }
        }
        let prev_root = s.prev_root().into_inner();
        let fid = self.fins.len();
        let read_keys: Vec<(Key, Option<[u8; 32]>)> = actuals
            .iter()
            .filter_map(|(k, a)| match a {
                KeyReadWrite::Read(v) | KeyReadWrite::ReadThenWrite(v, _) => Some((*k, v.as_ref().map(|v| vhash(v)))),
                _ => None,
            })
            .collect();
        let witness_on = self.witness_on;
        let op = format!("finish {} {} {}", sid, fid, Self::writes_line(&writes));
        let r = catch_unwind(AssertUnwindSafe(move || s.finish(actuals)));
        match r {
            Ok(Ok(mut fin)) => {
                let root = fin.root().into_inner();
                let witness = fin.take_witness();
                let view_after = Self::apply(&view, &writes);
                let expect = ref_root(&view_hashes(&view_after));
                if root != expect {
                    self.out.fail(format!(
                        "C02 finished-session root {} != reference root {} ({} keys, {} writes, workers={})",
                        hex(&root), hex(&expect), view_after.len(), writes.len(), self.cfg.workers
                    ));
                }
                if fin.prev_root().into_inner() != prev_root {
                    self.out.fail("prev_root changed across finish".into());
                }
                self.out.line(op, hex(&root));
                if witness_on {
                    match witness {
                        Some(w) => self.check_witness(fid, &w, prev_root, root, &view, &read_keys, &writes),
                        None => self.out.fail("C06 witness mode enabled but no witness produced".into()),
                    }
                }
                self.fins.push(FinInfo { fin: Some(fin), writes, view_after, prev_root, root, chain: chain.to_vec(), seqn_at_finish: self.root_epoch });
                self.ev("finished_sessions");
                Some(fid)
            }
            Ok(Err(e)) => {
                self.out.fail(format!("finish error: {e:#}"));
                self.out.line(op, "error".into());
                None
            }
            Err(_) => {
                self.out.fail(format!("C01 finish PANIC after: {}", op.chars().take(300).collect::<String>()));
                self.out.line(op, "panic".into());
                None
            }
        }
    }

    fn push_snapshot(&mut self) {
        if self.cfg.rollback {
            self.snaps.push_back(self.committed.clone());
            while self.snaps.len() > self.cfg.maxlog as usize {
                self.snaps.pop_front();
            }
        }
    }

    /// after any (attempted) state change: root, seqn and a sample of direct reads
    fn check_committed(&mut self, why: &str) {
        if !self.alive() {
            return;
        }
        let hashes = view_hashes(&self.committed);
        let expect = ref_root(&hashes);
        let got = self.db().root().into_inner();
        if got != expect {
            self.out.fail(format!("C02 root after {why}: {} != reference {} ({} keys)", hex(&got), hex(&expect), hashes.len()));
        }
        self.out.line("root".into(), hex(&got));
        let s = self.db().sync_seqn();
        if s != self.seqn {
            self.out.fail(format!("sync_seqn after {why}: {} expected {}", s, self.seqn));
        }
        self.out.line("seqn".into(), s.to_string());
        let keys: Vec<Key> = self.committed.keys().cloned().collect();
        let n = if self.no_dread { 0 } else { keys.len().min(12) };
        for _ in 0..n {
            let k = if self.rng.chance(3, 4) { *self.rng.pick(&keys) } else { self.gen_key() };
            self.dread(&k, why);
        }
        self.quiescent_points += 1;
        if self.image_sink.is_some() && (self.snapshot_every <= 1 || self.quiescent_points % self.snapshot_every == 0) {
            let occ = self.db.as_ref().map(|d| d.hash_table_utilization().occupied);
            if let Some(snaps) = self.image_sink.as_mut() {
                snaps.snapshot(&self.dir, &self.committed, why, occ);
            }
        }
    }

    fn dread(&mut self, k: &Key, why: &str) {
        match catch_unwind(AssertUnwindSafe(|| self.db().read(*k))) {
            Ok(Ok(v)) => {
                if v.as_ref() != self.committed.get(k) {
                    self.out.fail(format!(
                        "C01 direct read after {why} of {}: got len {:?} expected len {:?}",
                        hex(k), v.as_ref().map(|v| v.len()), self.committed.get(k).map(|v| v.len())
                    ));
                }
                self.out.line(format!("dread {}", hex(k)), v.map(|v| hex(&vhash(&v))).unwrap_or("-".into()));
            }
            Ok(Err(e)) => self.out.fail(format!("C01 direct read error {e:#}")),
            Err(_) => self.out.fail(format!("C01 direct read PANIC {}", hex(k))),
        }
    }

    pub fn read_all(&mut self, why: &str) {
        if !self.alive() {
            return;
        }
        let keys: Vec<Key> = self.committed.keys().cloned().collect();
        for k in keys {
            self.dread(&k, why);
        }
    }

    pub fn commit_fin(&mut self, fid: usize, nonblocking: bool) {
        let Some(fin) = self.fins[fid].fin.take() else { return };
        let cur_root = self.db().root().into_inner();
        let expect_ok = cur_root == self.fins[fid].prev_root;
        let op = format!("{} {}", if nonblocking { "trycommit" } else { "commit" }, fid);
        self.op_boundary(true, "commit");
        let r = catch_unwind(AssertUnwindSafe(|| {
            if nonblocking {
                fin.try_commit_nonblocking(self.db()).map(|o| o.is_none())
            } else {
                fin.commit(self.db()).map(|_| true)
            }
        }));
        match r {
            Ok(Ok(true)) => {
                if !expect_ok {
                    self.out.fail(format!("C12 stale changeset accepted: {op}"));
                }
                if self.fins[fid].chain.is_empty() && self.fins[fid].seqn_at_finish != self.root_epoch {
                    // F27 (known finding): the changeset was prepared on this very root, but commits and rollbacks happened in between
                    // ("ABA"): the root check passes, yet the changeset still carries the hash-table BUCKET indices of the pages as
                    // they were stored when the session read them; the intervening commit + rollback may have moved those pages, and
                    // writing to the stale buckets corrupts the table (a later operation panics in `seek.rs` on a page that is not found).
                    // The history is ended here: the acceptance itself is what the finding names.
                    self.out.fail(format!(
                        "C12 F27 ABA commit accepted: the committed root changed {} time(s) and was restored between the end of the session and the commit of its changeset ({op})",
                        self.root_epoch - self.fins[fid].seqn_at_finish
                    ));
                    self.ev("aba_commit_accepted_history_ended");
                    self.aba_stop = true;
                }
                self.push_snapshot();
                self.committed = self.fins[fid].view_after.clone();
                if !self.fins[fid].chain.is_empty() {
                    // a session built on overlays commits only its own writes
                    self.committed = {
                        // base must equal the (committed) parent overlay's view
                        self.fins[fid].view_after.clone()
                    };
                }
                self.seqn += 1;
                self.last_marker = None;
                self.out.line(op, "ok".into());
                self.ev("commits_ok");
                if self.fins[fid].writes.iter().any(|(_, v)| v.as_ref().map_or(false, |v| v.len() > 1332)) {
                    self.ev("commit_with_overflow_value");
                }
                if self.aba_stop {
                    // known finding F27: the store may be corrupted from here on; the handle is closed so that the rest of a compound
                    // operation (deferred commits, overlay scenarios) does not report the consequences under other names
                    self.db = None;
                }
            }
            Ok(Ok(false)) => {
                self.out.fail(format!("non-blocking commit deferred although no session is alive: {op}"));
                self.out.line(op, "busy".into());
            }
            Ok(Err(e)) => {
                if expect_ok {
                    self.out.fail(format!("C12 commit on the current base refused: {e:#}"));
                }
                self.out.line(op, "err".into());
                self.ev("commits_rejected_stale");
            }
            Err(_) => {
                self.out.fail(format!("C01 commit PANIC: {op} (keys before={}, writes={:?})", self.committed.len(),
                    self.fins[fid].writes.iter().map(|(k, v)| format!("{}:{:?}", &hex(k)[..8], v.as_ref().map(|v| v.len()))).collect::<Vec<_>>()));
                self.out.line(op, "panic".into());
                self.db = None;
            }
        }
        self.op_boundary(false, "commit");
        self.check_committed("commit");
    }

    fn op_commit(&mut self) {
        // a plain session on the committed state, or on a chain whose members were all committed
        if let Some(fid) = self.session_to_fin(&[], 3, 24) {
            let nb = self.rng.chance(1, 4);
            self.commit_fin(fid, nb);
        }
    }

    /// a commit without any write (empty batch, or reads only): it still is a commit — a delta is logged,
    /// the sequence number advances — and a later rollback must treat it as one
    fn op_commit_no_writes(&mut self) {
        let view = self.committed.clone();
        let Some((sid, s)) = self.begin(&[]) else { return };
        let mut actuals: Vec<(Key, KeyReadWrite)> = Vec::new();
        if self.rng.chance(1, 2) {
            let mut ks: Vec<Key> = (0..self.rng.range(1, 3)).map(|_| self.gen_key()).collect();
            ks.sort();
            ks.dedup();
            for k in ks {
                actuals.push((k, KeyReadWrite::Read(view.get(&k).cloned())));
            }
        }
        let prev_root = s.prev_root().into_inner();
        let fid = self.fins.len();
        let op = format!("finish {} {} -", sid, fid);
        match catch_unwind(AssertUnwindSafe(move || s.finish(actuals))) {
            Ok(Ok(fin)) => {
                let root = fin.root().into_inner();
                if root != prev_root {
                    self.out.fail("C02 a session without writes changed the root".into());
                }
                self.out.line(op, hex(&root));
                self.fins.push(FinInfo { fin: Some(fin), writes: vec![], view_after: view, prev_root, root, chain: vec![], seqn_at_finish: self.root_epoch });
                self.ev("write_free_commits");
                let nb = self.rng.chance(1, 4);
                self.commit_fin(fid, nb);
            }
            _ => {
                self.out.fail("finish of a write-free session failed".into());
                self.out.line(op, "error".into());
            }
        }
    }

    fn op_overlay_new(&mut self) {
        // base: committed state or a held overlay tip
        let held: Vec<usize> = (0..self.ovs.len()).filter(|&i| self.ovs[i].handle.is_some() && !self.ovs[i].committed && self.fork_valid(i)).collect();
        let chain = if !held.is_empty() && self.rng.chance(3, 4) {
            let tip = *self.rng.pick(&held);
            self.live_chain(tip)
        } else {
            vec![]
        };
        // the chain must be complete for the session to be accepted; incomplete ones are exercised in op_bad_chain
        let complete = match chain.last() {
            Some(&l) => self.ovs[l].parent.map_or(true, |p| self.ovs[p].committed),
            None => true,
        };
        if !complete {
            return self.op_bad_chain_with(chain);
        }
        if let Some(fid) = self.session_to_fin(&chain, 3, 16) {
            self.fin_to_overlay(fid, &chain);
        }
    }

    pub fn fin_to_overlay(&mut self, fid: usize, chain: &[usize]) -> usize {
        {
            let chain = chain.to_vec();
            let oid = self.ovs.len();
            let fin = self.fins[fid].fin.take().unwrap();
            let ov = fin.into_overlay();
            let root = ov.root().into_inner();
            if root != self.fins[fid].root {
                self.out.fail("C11 overlay root differs from the finished session's root".into());
            }
            self.out.line(format!("overlay {} {}", fid, oid), hex(&root));
            let f = &self.fins[fid];
            self.ovs.push(OvInfo {
                handle: Some(ov),
                view: f.view_after.clone(),
                changes: f.writes.clone(),
                parent: chain.first().cloned(),
                ancestors: chain.clone(),
                committed: false,
                base_root: f.prev_root,
                root,
                epoch_at_finish: f.seqn_at_finish,
            });
            self.ev("overlays_created");
            if chain.len() >= 2 {
                self.ev("overlay_chain_depth_ge3");
            }
            oid
        }
    }

    /// commit overlay `oid` (directed scenarios)
    pub fn overlay_commit(&mut self, oid: usize, nonblocking: bool) {
        self.overlay_commit_inner(oid, nonblocking)
    }

    /// try to begin a session on an explicit chain and drop it again; returns whether it was accepted
    pub fn try_begin(&mut self, chain: &[usize]) -> bool {
        match self.begin(chain) {
            Some((sid, s)) => {
                drop(s);
                self.out.line(format!("sdrop {}", sid), "ok".into());
                true
            }
            None => false,
        }
    }

    fn op_bad_chain_with(&mut self, chain: Vec<usize>) {
        // the engine knows this chain is not acceptable; the model must predict the exact error
        if let Some((sid, s)) = self.begin(&chain) {
            // accepted: then reads must still follow the chain semantics (checked by the model via lines)
            let view = self.chain_view(&chain);
            self.probe(sid, &s, &view, 2);
            drop(s);
            self.out.line(format!("sdrop {}", sid), "ok".into());
        }
    }

    fn op_bad_chain(&mut self) {
        let held: Vec<usize> = (0..self.ovs.len()).filter(|&i| self.ovs[i].handle.is_some() && !self.ovs[i].committed && self.fork_valid(i)).collect();
        if held.is_empty() {
            return;
        }
        let tip = *self.rng.pick(&held);
        let mut chain = self.live_chain(tip);
        match self.rng.below(4) {
            0 if chain.len() >= 2 => {
                chain.pop();
            }
            1 if chain.len() >= 3 => {
                let n = chain.len();
                chain.swap(n - 1, n - 2);
            }
            2 => {
                let other = *self.rng.pick(&held);
                let at = self.rng.range(1, chain.len());
                chain.insert(at.min(chain.len()), other);
            }
            _ if chain.len() >= 2 => {
                chain.remove(1);
            }
            _ => {}
        }
        // whether this is acceptable is for the implementation and the model to agree on; the oracle
        // only requires that an accepted session reads like the chain it was given *when that chain
        // is the full live chain*.
        let full = self.live_chain(tip);
        let complete = match full.last() {
            Some(&l) => self.ovs[l].parent.map_or(true, |p| self.ovs[p].committed),
            None => true,
        };
        let sid = self.next_sid;
        if let Some((sid, s)) = self.begin(&chain) {
            if chain == full && complete {
                let view = self.chain_view(&chain);
                self.probe(sid, &s, &view, 2);
            } else if chain.len() >= full.len() && chain[..full.len()] == full[..] && complete {
                // extra ancestors beyond the live ones are ignored by the zip
                let view = self.chain_view(&chain);
                self.probe(sid, &s, &view, 2);
            } else {
                self.out.fail(format!(
                    "C11 session accepted on an incomplete / non-ancestral chain {:?} (full live chain {:?}, complete={})",
                    chain, full, complete
                ));
            }
            drop(s);
            self.out.line(format!("sdrop {}", sid), "ok".into());
        }
        let _ = sid;
        self.ev("bad_chain_attempts");
    }

    /// A chain of 2..3 fresh overlays on the committed state whose batches keep touching the SAME keys (a key the parent
    /// deleted is blindly rewritten or deleted again by the child, a key the parent wrote is deleted / overwritten by the
    /// child), committed oldest first and then rolled back one commit at a time: every intermediate state must come back
    /// (the reverse delta of an overlay commit is built while its ancestors are still uncommitted overlays).
    fn op_overlay_chain_rollback(&mut self) {
        if !self.cfg.rollback {
            return self.op_overlay_new();
        }
        let depth = self.rng.range(2, 3);
        let mut chain: Vec<usize> = vec![]; // child first
        let mut created: Vec<usize> = vec![];
        for d in 0..depth {
            let view = self.chain_view(&chain);
            let mut ws: Vec<(Key, Option<Val>)> = vec![];
            if d == 0 {
                let existing: Vec<Key> = view.keys().cloned().collect();
                for k in existing.iter() {
                    if ws.len() >= 6 {
                        break;
                    }
                    if self.rng.chance(1, 3) {
                        let v = if self.rng.chance(2, 3) { None } else { Some(self.gen_val()) };
                        ws.push((*k, v));
                    }
                }
                for _ in 0..self.rng.range(1, 3) {
                    let k = self.gen_key();
                    let v = self.gen_val();
                    ws.push((k, Some(v)));
                }
            } else {
                let parent_changes = self.ovs[chain[0]].changes.clone();
                for (k, v) in parent_changes {
                    if self.rng.chance(2, 3) {
                        let nv = match v {
                            None => if self.rng.chance(3, 4) { Some(self.gen_val()) } else { None },
                            Some(_) => if self.rng.chance(1, 2) { None } else { Some(self.gen_val()) },
                        };
                        ws.push((k, nv));
                    }
                }
                let k = self.gen_key();
                let v = self.gen_val();
                ws.push((k, Some(v)));
            }
            ws.sort_by(|a, b| a.0.cmp(&b.0));
            ws.dedup_by(|a, b| a.0 == b.0);
            let Some(fid) = self.session_to_fin_with(&chain, 2, 0, Some(ws)) else { return };
            let oid = self.fin_to_overlay(fid, &chain);
            chain.insert(0, oid);
            created.push(oid);
        }
        self.ev("overlay_chain_rollback");
        for &oid in &created {
            if !self.alive() {
                return;
            }
            self.overlay_commit_inner(oid, false);
        }
        for _ in 0..self.rng.range(1, depth) {
            self.op_rollback_n(1);
        }
    }

    /// A whole cluster of committed keys under one 12-bit prefix (its depth-2 merkle page is stored once the cluster has
    /// >= 20 leaves) is deleted by overlay A, partly re-inserted by overlay B on A (the page is re-created — elided if fewer
    /// than 20 leaves come back), and a session on [B, A] reads and proves keys under that page: a seek must not pick up
    /// A's emptied copy of the page, nor the stale page on disk.  Afterwards the chain is committed in order or dropped.
    fn op_overlay_cluster_flip(&mut self) {
        // the largest group of committed keys sharing their first 12 bits
        let mut groups: BTreeMap<(u8, u8), Vec<Key>> = BTreeMap::new();
        for k in self.committed.keys() {
            groups.entry((k[0], k[1] & 0xF0)).or_default().push(*k);
        }
        let mut cluster = groups.into_values().max_by_key(|g| g.len()).unwrap_or_default();
        if cluster.len() < 20 {
            // grow (or found) the cluster by a direct commit so that its depth-2 page is stored
            let (b0, b1) = match cluster.first() {
                Some(k) => (k[0], k[1] & 0xF0),
                None => {
                    let k = self.rng.bytes32();
                    (k[0], k[1] & 0xF0)
                }
            };
            let want = self.rng.range(20, 27) - cluster.len();
            let mut ws: Vec<(Key, Option<Val>)> = vec![];
            for _ in 0..want {
                let mut k = self.rng.bytes32();
                k[0] = b0;
                k[1] = b1 | (k[1] & 0x0F);
                let v = self.gen_val();
                ws.push((k, Some(v)));
            }
            ws.sort_by(|x, y| x.0.cmp(&y.0));
            ws.dedup_by(|x, y| x.0 == y.0);
            let Some(fid) = self.session_to_fin_with(&[], 0, 0, Some(ws.clone())) else { return };
            self.commit_fin(fid, false);
            if !self.alive() {
                return;
            }
            cluster = self.committed.keys().filter(|k| k[0] == b0 && (k[1] & 0xF0) == b1).cloned().collect();
            if cluster.len() < 8 {
                return;
            }
        }
        let del: Vec<(Key, Option<Val>)> = cluster.iter().map(|k| (*k, None)).collect();
        let Some(fa) = self.session_to_fin_with(&[], 1, 0, Some(del)) else { return };
        let a = self.fin_to_overlay(fa, &[]);
        let back = self.rng.range(1, cluster.len().min(26));
        let mut ws: Vec<(Key, Option<Val>)> = vec![];
        for k in cluster.iter().take(back) {
            let v = self.gen_val();
            ws.push((*k, Some(v)));
        }
        // and a few fresh keys under the same 12-bit prefix
        for _ in 0..self.rng.below(3) {
            let mut k = self.rng.bytes32();
            k[0] = cluster[0][0];
            k[1] = (cluster[0][1] & 0xF0) | (k[1] & 0x0F);
            let v = self.gen_val();
            ws.push((k, Some(v)));
        }
        ws.sort_by(|x, y| x.0.cmp(&y.0));
        ws.dedup_by(|x, y| x.0 == y.0);
        let Some(fb) = self.session_to_fin_with(&[a], 1, 0, Some(ws)) else { return };
        let b = self.fin_to_overlay(fb, &[a]);
        self.ev("overlay_cluster_flip");
        // the session under test: reads + proofs of re-inserted, still-deleted and absent keys under the page
        let mut probes: Vec<Key> = cluster.iter().step_by((cluster.len() / 6).max(1)).cloned().collect();
        let mut absent = cluster[cluster.len() / 2];
        absent[31] ^= 0x5a;
        probes.push(absent);
        self.probe_extra = probes;
        if let Some(fc) = self.session_to_fin_with(&[b, a], 1, 2, None) {
            let _ = fc;
        }
        if self.rng.chance(1, 2) {
            self.overlay_commit_inner(a, false);
            if self.alive() {
                self.overlay_commit_inner(b, false);
            }
        }
    }

    fn op_overlay_commit(&mut self) {
        let held: Vec<usize> = (0..self.ovs.len()).filter(|&i| self.ovs[i].handle.is_some() && !self.ovs[i].committed).collect();
        if held.is_empty() {
            return;
        }
        // prefer the committable one
        let committable: Vec<usize> = held
            .iter()
            .cloned()
            .filter(|&i| self.ovs[i].parent.map_or(true, |p| self.last_marker == Some(p)) && self.ovs[i].base_root == self.db().root().into_inner())
            .collect();
        let oid = if !committable.is_empty() && self.rng.chance(3, 4) { *self.rng.pick(&committable) } else { *self.rng.pick(&held) };
        let nonblocking = self.rng.chance(1, 4);
        self.overlay_commit_inner(oid, nonblocking)
    }

    fn overlay_commit_inner(&mut self, oid: usize, nonblocking: bool) {
        let Some(ov) = self.ovs[oid].handle.take() else { return };
        let expect_ok = self.ovs[oid].parent.map_or(true, |p| self.last_marker == Some(p))
            && self.ovs[oid].base_root == self.db().root().into_inner();
        let op = format!("{} {}", if nonblocking { "otrycommit" } else { "ocommit" }, oid);
        self.op_boundary(true, "overlay-commit");
        let r = catch_unwind(AssertUnwindSafe(|| {
            if nonblocking {
                ov.try_commit_nonblocking(self.db()).map(|o| o.is_none())
            } else {
                ov.commit(self.db()).map(|_| true)
            }
        }));
        match r {
            Ok(Ok(true)) => {
                if !expect_ok {
                    self.out.fail(format!("C11/C12 overlay commit accepted out of order or on a stale base: {op}"));
                }
                self.push_snapshot();
                self.committed = Self::apply(&self.committed, &self.ovs[oid].changes.clone());
                if self.committed != self.ovs[oid].view {
                    self.out.fail(format!("C11 committed state after {op} differs from the overlay's own view"));
                }
                self.ovs[oid].committed = true;
                self.seqn += 1;
                self.last_marker = Some(oid);
                self.out.line(op.clone(), "ok".into());
                self.ev("overlay_commits_ok");
                if self.ovs[oid].parent.is_none() && self.ovs[oid].epoch_at_finish != self.root_epoch {
                    // F27 for overlays: the first overlay of a chain was prepared on this root, which changed and was restored in between
                    self.out.fail(format!(
                        "C12 F27 ABA commit accepted: the committed root changed {} time(s) and was restored between the end of the session and the commit of its changeset ({op})",
                        self.root_epoch - self.ovs[oid].epoch_at_finish
                    ));
                    self.ev("aba_commit_accepted_history_ended");
                    self.aba_stop = true;
                    self.db = None;
                }
            }
            Ok(Ok(false)) => {
                self.out.fail(format!("non-blocking overlay commit deferred although no session is alive: {op}"));
                self.out.line(op, "busy".into());
            }
            Ok(Err(e)) => {
                if expect_ok {
                    self.out.fail(format!("C11 in-order overlay commit on the current base refused: {e:#}"));
                }
                self.out.line(op, "err".into());
                self.ev("overlay_commits_rejected");
            }
            Err(_) => {
                self.out.fail(format!("C11 overlay commit PANIC: {op} changes={}", self.ovs[oid].changes.len()));
                self.out.line(op, "panic".into());
                self.db = None;
            }
        }
        self.op_boundary(false, "overlay-commit");
        self.check_committed("overlay commit");
    }

    fn op_overlay_drop(&mut self) {
        let held: Vec<usize> = (0..self.ovs.len()).filter(|&i| self.ovs[i].handle.is_some()).collect();
        if held.is_empty() {
            return;
        }
        let oid = *self.rng.pick(&held);
        self.ovs[oid].handle = None;
        self.out.line(format!("odrop {}", oid), "ok".into());
        self.ev("overlays_dropped");
    }

    /// two changesets on the same base; both are committed, in a random flavour; the loser must have no
    /// effect at all — including on what a later rollback restores.
    fn op_stale(&mut self) {
        let a = self.session_to_fin(&[], 1, 10);
        let b = self.session_to_fin(&[], 1, 10);
        let (Some(a), Some(b)) = (a, b) else { return };
        let (first, second) = if self.rng.chance(1, 2) { (a, b) } else { (b, a) };
        let nb1 = self.rng.chance(1, 2);
        self.commit_fin(first, nb1);
        if !self.alive() {
            return;
        }
        if self.rng.chance(1, 4) && self.cfg.rollback && !self.snaps.is_empty() {
            self.op_rollback_n(1);
        }
        let nb2 = self.rng.chance(1, 2);
        self.commit_fin(second, nb2);
        self.ev("stale_pairs");
        if self.alive() && self.cfg.rollback && self.rng.chance(1, 2) {
            self.op_rollback_n(1);
        }
    }

    /// non-blocking commit while a session is alive → the changeset is handed back, nothing changes
    fn op_nonblocking_busy(&mut self) {
        let Some(fid) = self.session_to_fin(&[], 1, 10) else { return };
        let Some((sid, s)) = self.begin(&[]) else { return };
        let fin = self.fins[fid].fin.take().unwrap();
        let op = format!("trycommit {}", fid);
        match catch_unwind(AssertUnwindSafe(|| fin.try_commit_nonblocking(self.db()))) {
            Ok(Ok(Some(back))) => {
                self.out.line(op, "busy".into());
                self.fins[fid].fin = Some(back);
                self.ev("nonblocking_deferred");
            }
            Ok(Ok(None)) => {
                self.out.fail("C12/C15 non-blocking commit went through while a session was alive".into());
                self.out.line(op, "ok".into());
            }
            Ok(Err(e)) => {
                self.out.fail(format!("non-blocking commit error while busy: {e:#}"));
                self.out.line(op, "err".into());
            }
            Err(_) => {
                self.out.fail("non-blocking commit PANIC while busy".into());
                self.out.line(op, "panic".into());
            }
        }
        // the live session still reads the old state
        let view = self.committed.clone();
        self.probe(sid, &s, &view, 2);
        drop(s);
        self.out.line(format!("sdrop {}", sid), "ok".into());
        self.check_committed("deferred non-blocking commit");
        if self.fins[fid].fin.is_some() {
            self.commit_fin(fid, true);
        }
    }

    pub fn op_rollback_n(&mut self, n: usize) {
        if !self.alive() {
            return;
        }
        let expect_ok = n == 0 || (self.cfg.rollback && n <= self.snaps.len());
        let op = format!("rollback {}", n);
        self.op_boundary(true, "rollback");
        match catch_unwind(AssertUnwindSafe(|| self.db().rollback(n))) {
            Ok(Ok(())) => {
                if !expect_ok {
                    self.out.fail(format!("C09 rollback({n}) succeeded with only {} restorable commits", self.snaps.len()));
                    // resynchronise the oracle as well as possible
                }
                if n > 0 {
                    let mut target = None;
                    for _ in 0..n {
                        target = self.snaps.pop_back();
                    }
                    if let Some(t) = target {
                        self.committed = t;
                    }
                    self.seqn += 1;
                    self.last_marker = None;
                }
                self.out.line(op, "ok".into());
                self.ev("rollbacks_ok");
                if n >= 2 {
                    self.ev("rollbacks_multi");
                }
            }
            Ok(Err(e)) => {
                if expect_ok {
                    self.out.fail(format!("C09 rollback({n}) refused with {} restorable commits: {e:#}", self.snaps.len()));
                    if self.db().is_poisoned() {
                        self.out.fail(format!("C09 handle poisoned by rollback({n})"));
                    }
                }
                self.out.line(op, "err".into());
                self.ev("rollbacks_refused");
            }
            Err(_) => {
                self.out.fail(format!("C09 rollback({n}) PANIC"));
                self.out.line(op, "panic".into());
                self.db = None;
            }
        }
        self.op_boundary(false, "rollback");
        self.check_committed("rollback");
    }

    fn op_rollback(&mut self) {
        let n = match self.rng.below(6) {
            0 => 0,
            1 => self.snaps.len() + 1,
            2 => self.snaps.len(),
            3 => 2,
            _ => 1,
        };
        self.op_rollback_n(n);
    }

    pub fn op_reopen(&mut self) {
        // every overlay / changeset dies with the handle
        for o in self.ovs.iter_mut() {
            if o.handle.take().is_some() {
                // model: handle dropped
            }
        }
        let held: Vec<usize> = (0..self.ovs.len()).collect();
        for oid in held {
            self.out.line(format!("odrop {}", oid), "ok".into());
        }
        for (fid, f) in self.fins.iter_mut().enumerate() {
            if f.fin.take().is_some() {
                self.out.ops.push(format!("fdrop {}", fid));
                self.out.imp.push("ok".into());
            }
        }
        let occupied_before = self.db.as_ref().map(|d| d.hash_table_utilization().occupied);
        self.db = None;
        let regen = self.cfg.regen(&mut self.rng);
        self.cfg = match self.matrix_variant {
            Some(v) => {
                // configuration matrix (C13): the reopened handle keeps following its variant, shifted
                self.matrix_variant = Some(v + 1);
                let mut c = cfg_variant(&self.cfg, v + 1);
                c.buckets = self.cfg.buckets;
                c.seed = self.cfg.seed;
                // creation-time options passed at a reopen must be ignored, whatever the variant passes
                c.reopen_seed = Some([(v as u8).wrapping_mul(29).wrapping_add(1); 16]);
                c.reopen_buckets = Some([4096u32, 8192, 64000, 1000][v % 4]);
                c
            }
            None => regen,
        };
        self.open_db();
        if !self.alive() {
            return;
        }
        self.last_marker = None;
        let root = self.db().root().into_inner();
        let seqn = self.db().sync_seqn();
        self.out.line("reopen".into(), format!("{} {}", hex(&root), seqn));
        if let Some(b) = occupied_before {
            let a = self.db().hash_table_utilization().occupied;
            if a != b {
                self.out.fail(format!("C10 hash-table occupancy changed across reopen: {b} -> {a}"));
            }
        }
        self.ev("reopens");
        self.check_committed("reopen");
    }

    pub fn step(&mut self, weights: &[(usize, &str)]) {
        if !self.alive() || self.aba_stop {
            return;
        }
        // scripted (directed) histories for the crash / fault checks
        if let Some(script) = self.script.as_mut() {
            if script.is_empty() {
                return;
            }
            let op = script.remove(0);
            match op {
                ScriptOp::Commit(n) => {
                    let ws: Vec<(Key, Option<Val>)> = (0..n)
                        .map(|_| {
                            let k = self.gen_key();
                            let v = if self.rng.chance(1, 5) { None } else { Some(gen_value(&mut self.rng, false)) };
                            (k, v)
                        })
                        .collect();
                    let mut ws = ws;
                    ws.sort_by(|a, b| a.0.cmp(&b.0));
                    ws.dedup_by(|a, b| a.0 == b.0);
                    if let Some(fid) = self.session_to_fin_with(&[], 4, 0, Some(ws)) {
                        self.commit_fin(fid, false);
                    }
                }
                ScriptOp::Rollback(n) => self.op_rollback_n(n),
                ScriptOp::Reopen => self.op_reopen(),
                ScriptOp::Fill(n, len) => {
                    let ws: Vec<(Key, Option<Val>)> = (0..n)
                        .map(|_| {
                            let k = self.rng.bytes32();
                            let mut v = gen_value(&mut self.rng, false);
                            v.resize(len, 0x6b);
                            (k, Some(v))
                        })
                        .collect();
                    if let Some(fid) = self.session_writes(&[], &ws) {
                        self.commit_fin(fid, false);
                    }
                }
                ScriptOp::FillCluster(n) => {
                    let ws: Vec<(Key, Option<Val>)> = (0..n)
                        .map(|_| {
                            let mut k = self.rng.bytes32();
                            k[0] = 0xC3;
                            k[1] = 0x5A;
                            (k, Some(gen_value(&mut self.rng, false)))
                        })
                        .collect();
                    if let Some(fid) = self.session_to_fin_with(&[], 6, 0, Some(ws)) {
                        self.commit_fin(fid, false);
                    }
                }
                ScriptOp::DeleteCluster(n) => {
                    let ws: Vec<(Key, Option<Val>)> = self.committed.keys().filter(|k| k[0] == 0xC3 && k[1] == 0x5A).take(n).map(|k| (*k, None)).collect();
                    if let Some(fid) = self.session_to_fin_with(&[], 6, 0, Some(ws)) {
                        self.commit_fin(fid, false);
                    }
                }
                ScriptOp::FlipCluster(n, half) => {
                    let in_cluster = |k: &Key| k[0] == 0xC3 && k[1] == 0x5A && k[2] & 0xC0 == 0;
                    let mut ws: Vec<(Key, Option<Val>)> = self.committed.keys().filter(|k| in_cluster(k)).map(|k| (*k, None)).collect();
                    for _ in 0..n {
                        let mut k = self.rng.bytes32();
                        k[0] = 0xC3;
                        k[1] = 0x5A;
                        k[2] = (k[2] & 0x1F) | (half << 5);
                        ws.push((k, Some(gen_value(&mut self.rng, false))));
                    }
                    ws.sort();
                    ws.dedup_by(|a, b| a.0 == b.0);
                    if let Some(fid) = self.session_to_fin_with(&[], 6, 0, Some(ws)) {
                        self.commit_fin(fid, false);
                    }
                }
                ScriptOp::FillLens(lens) => {
                    let ws: Vec<(Key, Option<Val>)> = lens
                        .iter()
                        .map(|len| {
                            let k = self.rng.bytes32();
                            let mut v = gen_value(&mut self.rng, false);
                            v.resize(*len, 0x6b);
                            (k, Some(v))
                        })
                        .collect();
                    if let Some(fid) = self.session_writes(&[], &ws) {
                        self.commit_fin(fid, false);
                    }
                }
                ScriptOp::DeleteLen(len) => {
                    let ws: Vec<(Key, Option<Val>)> = self.committed.iter().filter(|(_, v)| v.len() == len).map(|(k, _)| (*k, None)).collect();
                    if let Some(fid) = self.session_writes(&[], &ws) {
                        self.commit_fin(fid, false);
                    }
                }
                ScriptOp::DeleteAll => {
                    let ws: Vec<(Key, Option<Val>)> = self.committed.keys().map(|k| (*k, None)).collect();
                    if let Some(fid) = self.session_writes(&[], &ws) {
                        self.commit_fin(fid, false);
                    }
                }
            }
            return;
        }
        let total: usize = weights.iter().map(|w| w.0).sum();
        let mut x = self.rng.below(total);
        let mut which = weights[0].1;
        for (w, name) in weights {
            if x < *w {
                which = name;
                break;
            }
            x -= w;
        }
        match which {
            "commit" => self.op_commit(),
            "commit_nw" => self.op_commit_no_writes(),
            "overlay_new" => self.op_overlay_new(),
            "overlay_commit" => self.op_overlay_commit(),
            "ov_chain_rb" => self.op_overlay_chain_rollback(),
            "ov_cluster_flip" => self.op_overlay_cluster_flip(),
            "overlay_drop" => self.op_overlay_drop(),
            "bad_chain" => self.op_bad_chain(),
            "stale" => self.op_stale(),
            "busy" => self.op_nonblocking_busy(),
            "rollback" => self.op_rollback(),
            "reopen" => self.op_reopen(),
            "read_all" => self.read_all("read_all"),
            _ => {}
        }
    }

    pub fn finish(mut self) {
        self.read_all("end of history");
        for o in self.ovs.iter_mut() {
            o.handle = None;
        }
        for f in self.fins.iter_mut() {
            f.fin = None;
        }
        self.db = None;
        if !self.keep_dir {
            let _ = std::fs::remove_dir_all(&self.dir);
        }
    }
}

pub const W_GENERAL: &[(usize, &str)] = &[
    (10, "commit"),
    (1, "commit_nw"),
    (6, "overlay_new"),
    (4, "overlay_commit"),
    (1, "overlay_drop"),
    (1, "ov_chain_rb"),
    (1, "ov_cluster_flip"),
    (1, "bad_chain"),
    (2, "stale"),
    (1, "busy"),
    (3, "rollback"),
    (2, "reopen"),
    (1, "read_all"),
];

/// `--fat`: every history of this process draws fat values (about 1 KiB: 3 keys per leaf, hundreds of leaves)
pub static FAT: std::sync::atomic::AtomicBool = std::sync::atomic::AtomicBool::new(false);

pub fn weights_for(focus: &str) -> Vec<(usize, &'static str)> {
    match focus {
        "kv" => vec![(12, "commit"), (2, "overlay_new"), (2, "overlay_commit"), (1, "rollback"), (2, "reopen"), (1, "read_all")],
        "rollback" => vec![(8, "commit"), (3, "commit_nw"), (3, "overlay_new"), (3, "overlay_commit"), (3, "ov_chain_rb"), (8, "rollback"), (3, "reopen"), (2, "stale")],
        "overlay" => vec![(3, "commit"), (10, "overlay_new"), (6, "overlay_commit"), (2, "ov_chain_rb"), (2, "ov_cluster_flip"), (2, "overlay_drop"), (3, "bad_chain"), (2, "rollback"), (1, "reopen"), (1, "stale")],
        "reject" => vec![(4, "commit"), (3, "overlay_new"), (3, "overlay_commit"), (8, "stale"), (4, "busy"), (4, "rollback"), (1, "reopen")],
        "reopen" => vec![(8, "commit"), (1, "commit_nw"), (3, "overlay_new"), (3, "overlay_commit"), (3, "rollback"), (8, "reopen"), (1, "stale")],
        _ => W_GENERAL.to_vec(),
    }
}

pub fn run(seed: u64, cases: usize, out: &mut Sink, focus: &str, nops: usize, big: bool, scale: usize) {
    let mut rng = Rng::new(seed);
    let pid = std::process::id();
    let weights = weights_for(focus);
    for case in 0..cases {
        let mut r = rng.fork();
        let mut cfg = DbCfg::gen(&mut r);
        if focus == "rollback" || focus == "reject" {
            cfg.maxlog = *r.pick(&[1u32, 2, 3, 5]);
        }
        let dir = format!("/dev/shm/nomt-verif-db-{pid}-{seed}-{case}");
        out.mark_case(format!("case {case} focus={focus} cfg: {}", cfg.describe()));
        let start = out.ops.len();
        let mut n = r.range(nops / 2, nops);
        let mut e = Engine::new(r, out, cfg, dir, big);
        e.script = script_for(focus);
        if let Some(sc) = &e.script {
            n = sc.len();
        }
        if scale == 1 && case % 4 == 3 && e.script.is_none() {
            // elision universe: 34 keys under one 12..17-bit prefix (a sub-trie two page levels below the root
            // page) plus a few outsiders: batches and deletions move the sub-trie's leaf count back and forth
            // across the page-elision threshold (20), so pages get materialised, elided and re-materialised
            e.dense = true;
            let base = e.rng.bytes32();
            let d = e.rng.range(12, 17);
            let mut u: Vec<Key> = (0..34).map(|_| with_prefix(&mut e.rng, &base, d)).collect();
            for _ in 0..4 {
                u.push(e.rng.bytes32());
            }
            e.pool = u;
        } else if scale == 1 && case % 2 == 1 && e.script.is_none() {
            // dense universe: 14 keys in two clusters (some pairs diverging only near the end)
            e.dense = true;
            let mut u: Vec<Key> = Vec::new();
            for c in 0..2 {
                let base = e.rng.bytes32();
                let d = if c == 0 { e.rng.range(2, 12) } else { interesting_depth(&mut e.rng) };
                for _ in 0..5 {
                    u.push(with_prefix(&mut e.rng, &base, d));
                }
                let dd = e.rng.range(200, 255);
                let last = u[u.len() - 1];
                let deep = diverge_at(&mut e.rng, &last, dd);
                u.push(deep);
                u.push(base);
                // the exact boundary keys of the cluster prefix: P·1·00…0 and P·0·11…1
                let pd = d.min(250);
                let (mut lo, mut hi) = (base, base);
                set_bit(&mut lo, pd, false);
                set_bit(&mut hi, pd, true);
                for i in pd + 1..256 {
                    set_bit(&mut lo, i, true);
                    set_bit(&mut hi, i, false);
                }
                u.push(lo);
                u.push(hi);
            }
            e.pool = u;
        }
        if scale > 1 {
            e.scale = scale;
            let extra = gen_keyset(&mut e.rng, 40 * scale);
            e.pool.extend(extra);
        }
        for _ in 0..n {
            e.step(&weights);
        }
        let events = e.events.clone();
        e.finish();
        // non-trivial: at least two successful commits and at least one structural / protocol event
        let commits = events.get("commits_ok").cloned().unwrap_or(0) + events.get("overlay_commits_ok").cloned().unwrap_or(0);
        let special = events.iter().any(|(k, v)| *v > 0 && !matches!(k.as_str(), "commits_ok" | "finished_sessions" | "proofs"));
        if commits >= 2 && special {
            let sig = out.ops[start..].join("\n");
            out.nontrivial(&sig);
        }
        if case < 1 {
            for l in start..(start + 8).min(out.ops.len()) {
                let mut s = format!("{} => {}", out.ops[l], out.imp[l]);
                s.truncate(300);
                out.samples.push(s);
            }
        }
    }
}


fn k(b: u8) -> Key {
    let mut x = [b; 32];
    x[31] = b.wrapping_mul(3);
    x
}

/// Directed minimal histories: the minimised forms of past failures (the corpus).  They run through the
/// same engine, so both the oracle and the model correspondence apply.
pub fn scenario(name: &str, out: &mut Sink) {
    let pid = std::process::id();
    let dir = format!("/dev/shm/nomt-verif-db-{pid}-scn-{name}");
    let mut cfg = DbCfg::gen(&mut Rng::new(7));
    cfg.workers = 1;
    cfg.rollback = true;
    cfg.maxlog = 100;
    if name == "reopen-resurrects-pruned-delta" || name == "rollback-all-then-reopen" || name == "rollback-reopen-rollback-reopen" {
        cfg.maxlog = 1;
    }
    if name == "witness-many-workers" {
        cfg.workers = 8;
    }
    out.mark_case(format!("scenario {name} cfg: {}", cfg.describe()));
    let mut e = Engine::new(Rng::new(11), out, cfg, dir, false);
    let v = |n: u8| Some(vec![n; 40]);
    match name {
        // F1: a stale non-blocking session commit must not touch the rollback log
        "stale-nonblocking-then-rollback" => {
            let f0 = e.session_writes(&[], &[(k(1), v(1))]).unwrap();
            e.commit_fin(f0, false);
            let a = e.session_writes(&[], &[(k(2), v(2))]).unwrap();
            let b = e.session_writes(&[], &[(k(3), v(3))]).unwrap();
            e.commit_fin(a, false);
            e.commit_fin(b, true);
            e.op_rollback_n(1);
            e.read_all("scenario");
        }
        // F11: first commit on an empty store of a batch that changes no leaf
        "empty-store-delete-only" => {
            let f0 = e.session_writes(&[], &[(k(1), None)]).unwrap();
            e.commit_fin(f0, false);
            if e.alive() {
                let f1 = e.session_writes(&[], &[(k(2), v(2))]).unwrap();
                e.commit_fin(f1, false);
            }
        }
        // F4b: max_rollback_log_len = 1, two commits, reopen: rollback(2) must still be refused
        "reopen-resurrects-pruned-delta" => {
            let f0 = e.session_writes(&[], &[(k(1), v(1))]).unwrap();
            e.commit_fin(f0, false);
            let f1 = e.session_writes(&[], &[(k(2), v(2))]).unwrap();
            e.commit_fin(f1, false);
            e.op_reopen();
            e.op_rollback_n(2);
            e.op_rollback_n(1);
        }
        // F4 (same-segment face): everything retained is rolled back after the log start was pruned;
        // the published live range must be empty, before and after reopening
        "rollback-all-then-reopen" => {
            for i in 1..=3u8 {
                let f = e.session_writes(&[], &[(k(i), v(i))]).unwrap();
                e.commit_fin(f, false);
            }
            e.op_rollback_n(1);
            e.op_rollback_n(1);
            e.op_reopen();
            e.op_rollback_n(1);
            let f = e.session_writes(&[], &[(k(9), v(9))]).unwrap();
            e.commit_fin(f, false);
            e.op_rollback_n(1);
            e.op_reopen();
            e.read_all("scenario");
        }
        // F12: overwriting a value of more than 15 overflow pages with rollback enabled (the prior is
        // fetched by the asynchronous overflow reader)
        "overwrite-huge-value-with-rollback" => {
            let f = e.session_writes(&[], &[(k(1), Some(vec![7u8; 70_000])), (k(2), Some(vec![8u8; 16 * 4092 + 1]))]).unwrap();
            e.commit_fin(f, false);
            e.no_dread = true;
            e.op_reopen(); // cold leaf cache: the prior values are loaded asynchronously
            e.no_dread = false;
            e.always_preserve = true;
            let f = e.session_writes(&[], &[(k(1), v(1)), (k(2), None)]).unwrap();
            e.commit_fin(f, false);
            e.op_rollback_n(1);
            e.read_all("scenario");
        }
        // F3: witness of a session spanning several commit workers (operations must be attached to the
        // right paths whatever order the workers finish in)
        "witness-many-workers" => {
            let mut ws: Vec<(Key, Option<Val>)> = Vec::new();
            for i in 0..64u8 {
                let mut key = [0u8; 32];
                key[0] = i << 2;
                key[1] = i;
                ws.push((key, v(i)));
            }
            let f = e.session_writes(&[], &ws).unwrap();
            e.commit_fin(f, false);
            e.force_witness = true;
            for round in 0..6u8 {
                // skewed: many operations in the first shards, few in the last
                let mut ws: Vec<(Key, Option<Val>)> = Vec::new();
                for i in 0..64u8 {
                    if i < 40 || i % 7 == round % 7 {
                        let mut key = [0u8; 32];
                        key[0] = i << 2;
                        key[1] = i;
                        key[2] = if i % 3 == 0 { 0 } else { round + 1 };
                        ws.push((key, if (i + round) % 5 == 0 { None } else { v(i.wrapping_add(round)) }));
                    }
                }
                let f = e.session_writes(&[], &ws).unwrap();
                e.commit_fin(f, false);
            }
        }
        // F4c: maxlog 1 — commit, write-free commit, rollback(1), two commits, reopen, rollback(1), reopen:
        // the log is empty; a further rollback(1) must be refused (before the fix the reopened store
        // had brought a discarded delta back)
        "rollback-reopen-rollback-reopen" => {
            let f = e.session_writes(&[], &[(k(1), v(1))]).unwrap();
            e.commit_fin(f, false);
            let f = e.session_writes(&[], &[]).unwrap();
            e.commit_fin(f, false);
            e.op_rollback_n(1);
            let f = e.session_writes(&[], &[(k(1), v(2))]).unwrap();
            e.commit_fin(f, false);
            let f = e.session_writes(&[], &[(k(1), None), (k(2), v(3))]).unwrap();
            e.commit_fin(f, false);
            e.op_reopen();
            e.op_rollback_n(1);
            e.op_reopen();
            e.op_rollback_n(1);
            e.read_all("scenario");
        }
        // F6: a rejected overlay commit must not make its descendants look complete
        "rejected-overlay-marks-committed" => {
            let f0 = e.session_writes(&[], &[(k(1), v(1))]).unwrap();
            e.commit_fin(f0, false);
            let fa = e.session_writes(&[], &[(k(2), v(2))]).unwrap();
            let a = e.fin_to_overlay(fa, &[]);
            let fb = e.session_writes(&[a], &[(k(3), v(3))]).unwrap();
            let b = e.fin_to_overlay(fb, &[a]);
            let fc = e.session_writes(&[], &[(k(4), v(4))]).unwrap();
            e.commit_fin(fc, false);
            e.overlay_commit(a, false); // stale base: refused
            if e.try_begin(&[b]) {
                e.out.fail("C11 session accepted on overlay B although its parent A was never committed (A's commit was rejected)".into());
            }
        }
        _ => e.out.fail(format!("unknown scenario {name}")),
    }
    e.finish();
}


/// the runtime-only part of configuration variant `v` (persistent parameters of `base` are kept)
pub fn cfg_variant(base: &DbCfg, v: usize) -> DbCfg {
    let workers = [1usize, 2, 3, 4, 7, 8, 16, 64, 5, 33];
    let mut c = base.clone();
    c.workers = workers[v % workers.len()];
    c.warm_up = v % 2 == 1;
    c.page_cache = [1usize, 256, 4, 1, 2][v % 5];
    c.leaf_cache = [1usize, 4, 256][v % 3];
    c.io_workers = 1 + v % 3;
    c.prepopulate = v % 4 >= 2;
    c.upper_levels = v % 4;
    c
}

/// C13: the same history under a matrix of configurations; every observable line must be identical.
pub fn run_matrix(seed: u64, cases: usize, out: &mut Sink, focus: &str, nops: usize, variants: usize, scale: usize) {
    let mut rng = Rng::new(seed);
    let pid = std::process::id();
    let weights = weights_for(focus);
    for case in 0..cases {
        let r0 = rng.fork();
        let mut reference: Option<(Vec<String>, Vec<String>)> = None;
        let mut tables = [4096u32, 16384, 64000];
        tables.rotate_left(case % 3);
        for v in 0..variants {
            let mut r = r0.clone();
            let base = DbCfg::gen(&mut r);
            let mut cfg = cfg_variant(&base, v + case);
            // hash-table size and seed are creation-time options: vary them per variant as well
            cfg.buckets = tables[v % 3];
            cfg.seed[0] = v as u8;
            let n = r.range(nops / 2, nops);
            let dir = format!("/dev/shm/nomt-verif-db-{pid}-{seed}-{case}-m{v}");
            let mut local = Sink::new();
            {
                let mut e = Engine::new(r, &mut local, cfg.clone(), dir, false);
                e.matrix_variant = Some(v + case);
                if scale > 1 {
                    e.scale = scale;
                    let extra = gen_keyset(&mut e.rng, 40 * scale);
                    e.pool.extend(extra);
                }
                for _ in 0..n {
                    e.step(&weights);
                }
                e.finish();
            }
            for f in local.oracle_failures.iter() {
                out.fail(format!("(config {}) {f}", cfg.describe()));
            }
            for (k, c) in local.stats.iter() {
                out.add(k, *c);
            }
            out.count("config_runs");
            match &reference {
                None => {
                    out.mark_case(format!("case {case} matrix focus={focus} reference cfg: {}", cfg.describe()));
                    for (o, i) in local.ops.iter().zip(local.imp.iter()) {
                        out.line(o.clone(), i.clone());
                    }
                    if case < 1 {
                        out.samples.push(format!("case {case}: {} lines compared across {} configurations, first: {}", local.ops.len(), variants, cfg.describe()));
                    }
                    reference = Some((local.ops, local.imp));
                }
                Some((rops, rimp)) => {
                    if *rops != local.ops {
                        let i = rops.iter().zip(local.ops.iter()).position(|(a, b)| a != b).unwrap_or(rops.len().min(local.ops.len()));
                        out.fail(format!(
                            "C13 the history itself diverged under configuration [{}] at line {i}: {:?} vs {:?}",
                            cfg.describe(), rops.get(i).map(|s| &s[..s.len().min(120)]), local.ops.get(i).map(|s| &s[..s.len().min(120)])
                        ));
                    } else if *rimp != local.imp {
                        let i = rimp.iter().zip(local.imp.iter()).position(|(a, b)| a != b).unwrap_or(0);
                        out.fail(format!(
                            "C13 observable differs under configuration [{}] at line {i} ({}): {:?} vs {:?}",
                            cfg.describe(), &rops[i][..rops[i].len().min(100)], &rimp[i][..rimp[i].len().min(100)], &local.imp[i][..local.imp[i].len().min(100)]
                        ));
                    } else {
                        out.nontrivial(&format!("{seed}-{case}-{v}"));
                    }
                }
            }
        }
    }
}
