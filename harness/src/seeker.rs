//! C05 / C13 / C06: the request multiplexing of the `Seeker` (`nomt/src/merkle/seek.rs`) — the REAL `Seeker` (I/O slab,
//! `io_waiters`, idle queues, `MAX_INFLIGHT` back-pressure, completions in push order) through
//! `nomt::verif_api::seek::SeekerSim` (hook H34): a real `PageLoader` over a hand-built bitbox table (pages placed by the
//! real `allocate_bucket`, colliding decoys and tombstones), a real read transaction over hand-built leaves, and a
//! SCRIPTED I/O back-end — every page / leaf read the seeker submits is parked, this module decides when and in which
//! order each one completes.  Every call is one protocol line for the Lean driver's `seeker` mode (mirror
//! `Store/Seeker.lean`), answered with the whole multiplexer state (requests, waiter lists, slab, idle queues, in-flight
//! reads).  Oracles that do not depend on the model:
//!   * C05 order / exactly-once oracle: the completions are the pushed keys, each once, in push order;
//!   * C05 proof oracle: every completion = the reference trie's proof of the view (`seek::check_result`, incl. the real
//!     `PathProof::verify`);
//!   * C13 sharing oracle: a page / leaf is loaded by at most one slab entry at a time and a page at most once per seeker;
//!     every waiter is a live uncompleted request; every live uncompleted request is on exactly one waiter list or in
//!     the idle queue (no waiter lost);
//!   * C05 slab oracle: the in-flight reads carry distinct user data, each the index of an occupied, submitted slab entry
//!     of the right kind;
//!   * no panic, no stall: while a request is live something is in flight, a completion can be taken, or `submit_all`
//!     changes the state — except in the state "`!has_room` and every load idle" (counted, see notes/Q34.md).
use super::*;
use nomt::verif_api::seek::{InFlight, PagePool, SeekerSim, SeekerView, SlabView, TableSim};
use std::collections::{BTreeMap, BTreeSet};

fn aw_str(a: &Option<Awaiting>) -> String {
    match a {
        None => "-".to_string(),
        Some(Awaiting::Page(p)) => format!("P:{}", pid_str(p)),
        Some(Awaiting::Leaf(l)) => format!("L:{l}"),
    }
}
fn nats(v: &[usize]) -> String {
    if v.is_empty() {
        "-".into()
    } else {
        v.iter().map(|x| x.to_string()).collect::<Vec<_>>().join(",")
    }
}

fn mux_line(v: &SeekerView) -> String {
    let reqs = if v.requests.is_empty() {
        "-".to_string()
    } else {
        v.requests
            .iter()
            .map(|r| {
                let st = match r.state {
                    StateView::Seeking => "S",
                    StateView::FetchingLeaf(_) => "F",
                    StateView::FetchingLeaves(_) => "G",
                    StateView::Completed(_) => "D",
                };
                format!("{st}{}/{}/{}", r.depth, r.ios, aw_str(&r.awaiting))
            })
            .collect::<Vec<_>>()
            .join(",")
    };
    let w = if v.waiters.is_empty() {
        "-".to_string()
    } else {
        v.waiters.iter().map(|(q, w)| format!("{}=[{}]", aw_str(&Some(q.clone())), nats(w))).collect::<Vec<_>>().join(";")
    };
    let slab = if v.slab.is_empty() {
        "-".to_string()
    } else {
        v.slab
            .iter()
            .map(|(i, e)| match e {
                SlabView::Merkle { page_id, bucket, submitted } => format!("{i}:M:{}:{bucket}:{}", pid_str(page_id), if *submitted { "S" } else { "P" }),
                SlabView::Leaf(l) => format!("{i}:L:{l}"),
            })
            .collect::<Vec<_>>()
            .join(",")
    };
    let io = if v.in_flight.is_empty() {
        "-".to_string()
    } else {
        v.in_flight
            .iter()
            .map(|(ud, c)| match c {
                InFlight::Bucket(b) => format!("{ud}:B{b}"),
                InFlight::Leaf(l) => format!("{ud}:L{l}"),
            })
            .collect::<Vec<_>>()
            .join(",")
    };
    format!(
        "proc={} reqs={reqs} w={w} slab={slab} vk={} n={} ir={} il={} io={io}",
        v.processed,
        v.vacant_key,
        v.slab.len(),
        nats(&v.idle_requests),
        nats(&v.idle_page_loads)
    )
}

pub fn run(seed: u64, cases: usize, out: &mut Sink) {
    let mut rng = Rng::new(seed ^ 0x5EE4_E7);
    for case in 0..cases {
        let mut r = rng.fork();
        let mut c = gen_case(&mut r);
        // 1…12 keys: the case's queries, more keys near them (shared pages / shared leaves), duplicates
        let all: Vec<Key> = c.view.iter().map(|x| x.0).chain(c.base.keys().cloned()).collect();
        let want = *r.pick(&[1usize, 2, 2, 3, 4, 5, 6, 8, 10, 12]);
        while c.queries.len() < want {
            let q = match r.below(5) {
                0 if !c.queries.is_empty() => *r.pick(&c.queries),
                1 | 2 if !c.view.is_empty() => r.pick(&c.view).0,
                3 => r.bytes32(),
                _ => near_key(&mut r, &all),
            };
            c.queries.push(q);
        }
        c.queries.truncate(12);
        out.mark_case(format!("seeker case {case}: {} keys={}", c.desc, c.queries.len()));
        out.count("cases");
        run_case(&mut r, &c, out);
    }
}

fn random_pid(r: &mut Rng) -> Vec<u8> {
    let n = r.range(1, 5);
    (0..n).map(|_| r.below(64) as u8).collect()
}

fn run_case(r: &mut Rng, c: &Case, out: &mut Sink) {
    let root = ref_root(&c.view);
    let mode = if r.chance(1, 4) { Elide::Loose } else { Elide::Canonical };
    let tree = build_tree(r, &c.view, mode);
    let stored_ids: Vec<Vec<u8>> = tree.stored.keys().cloned().collect();
    let elided_ids: Vec<Vec<u8>> = tree.elided.keys().cloned().collect();
    let mut ovl_pages: Vec<(Vec<u8>, PageImg)> = Vec::new();
    let mut cache_pages: Vec<(Vec<u8>, PageImg)> = Vec::new();
    let warm = *r.pick(&[0usize, 0, 0, 1, 1, 2, 3]);
    for id in &stored_ids {
        let img = tree.stored[id].clone();
        if !c.chain.is_empty() && r.chance(1, 6) {
            ovl_pages.push((id.clone(), img.clone()));
        }
        let p = match warm {
            0 => 0,
            1 => 1,
            2 => 3,
            _ => 4,
        };
        if r.chance(p, 4) {
            cache_pages.push((id.clone(), img));
        }
    }
    let mut stale_ovl: Vec<(Vec<u8>, PageImg)> = Vec::new();
    for id in &elided_ids {
        let stale = PageImg { path: id.clone(), nodes: vec![(0, r.bytes32()), (1, TERMINATOR)], elided: r.next() };
        if !c.chain.is_empty() && r.chance(1, 4) {
            stale_ovl.push((id.clone(), stale.clone()));
            out.count("stale_overlay_page");
        }
        if r.chance(1, 6) {
            cache_pages.push((id.clone(), stale));
            out.count("stale_cache_page");
        }
    }
    // ---- the overlay chain
    let mut handles: Vec<Overlay> = Vec::new();
    let nov = c.chain.len();
    for (o, changes) in c.chain.iter().enumerate() {
        let refs: Vec<&Overlay> = handles.iter().rev().collect();
        let live = match LiveSim::new(refs.iter().cloned()) {
            Ok(l) => l,
            Err(e) => {
                out.fail(format!("C11 LiveOverlay::new refused a plain chain: {e:?}"));
                return;
            }
        };
        let mut pages: Vec<(PageId, Vec<u8>)> = Vec::new();
        if o + 1 == nov {
            for (id, img) in &ovl_pages {
                pages.push((mk_pid(id), img.bytes()));
            }
        }
        for (id, img) in &stale_ovl {
            if (id.len() + o) % nov == 0 {
                pages.push((mk_pid(id), img.bytes()));
            }
        }
        let values: Vec<(Key, Option<Val>)> = changes.iter().map(|(k, ch)| (*k, ch.as_ref().map(|v| v.val()))).collect();
        let mut prev = [0u8; 32];
        prev[0] = o as u8;
        let mut next = [0u8; 32];
        next[0] = o as u8 + 1;
        handles.push(live.finish_full(prev, next, pages, values));
    }
    let refs: Vec<&Overlay> = handles.iter().rev().collect();
    let live = match LiveSim::new(refs.iter().cloned()) {
        Ok(l) => l,
        Err(e) => {
            out.fail(format!("C11 LiveOverlay::new refused a plain chain: {e:?}"));
            return;
        }
    };
    // ---- the hash table: the stored pages in a random order, colliding decoys, tombstones
    let malformed = r.chance(1, 14) || c.bad_first_sep;
    if malformed {
        out.count("malformed_cases");
    }
    let nbuckets = (stored_ids.len() * r.range(2, 4) + r.range(8, 40)) as u32;
    let mut seed16 = [0u8; 16];
    seed16.copy_from_slice(&r.bytes32()[..16]);
    let table = match TableSim::new(nbuckets, seed16, PagePool::new()) {
        Ok(t) => t,
        Err(e) => {
            out.fail(format!("harness: TableSim::new failed: {e}"));
            return;
        }
    };
    let mut buckets: BTreeMap<u64, (Vec<u8>, Vec<u8>)> = BTreeMap::new(); // bucket -> (label path, bytes)
    let stored_set: BTreeSet<Vec<u8>> = stored_ids.iter().cloned().collect();
    let mut order = stored_ids.clone();
    for i in (1..order.len()).rev() {
        order.swap(i, r.below(i + 1));
    }
    let collide = r.chance(1, 2);
    let mut missing: Option<Vec<u8>> = None;
    for id in &order {
        if malformed && missing.is_none() && r.chance(1, 6) {
            missing = Some(id.clone()); // a page the trie refers to is not in the table
            continue;
        }
        let pid = mk_pid(id);
        if collide && r.chance(1, 3) {
            // decoys that start their probe sequence at the same bucket with the same tag, placed first
            for _ in 0..r.range(1, 2) {
                let mut found = None;
                for _ in 0..60_000 {
                    let d = random_pid(r);
                    if table.same_slot(&pid, &mk_pid(&d)) {
                        if stored_set.contains(&d) || buckets.values().any(|(l, _)| *l == d) {
                            continue;
                        }
                        found = Some(d);
                        break;
                    }
                }
                if let Some(d) = found {
                    if let Some(b) = table.insert(&mk_pid(&d)) {
                        let img = PageImg { path: d.clone(), nodes: vec![(0, r.bytes32())], elided: 0 };
                        buckets.insert(b, (d, img.bytes()));
                        out.count("colliding_decoys");
                    }
                }
            }
        }
        if r.chance(1, 4) {
            // a random foreign page, sometimes removed again (tombstone)
            let d = random_pid(r);
            if !stored_set.contains(&d) && !buckets.values().any(|(l, _)| *l == d) {
                if let Some(b) = table.insert(&mk_pid(&d)) {
                    if r.chance(1, 2) {
                        table.remove(b);
                        out.count("tombstones");
                    } else {
                        let img = PageImg { path: d.clone(), nodes: vec![(1, r.bytes32())], elided: 0 };
                        buckets.insert(b, (d, img.bytes()));
                    }
                }
            }
        }
        match table.insert(&pid) {
            Some(b) => {
                buckets.insert(b, (id.clone(), tree.stored[id].bytes()));
            }
            None => {
                // the harness could not place its own decoys on this small table (the real `allocate_bucket` legitimately gives up when
                // its probe orbit holds no free bucket): not a verdict about the code — the case is skipped and counted
                // (false alarm of C13's thorough tier, session 4)
                out.count("setup_table_full_case_skipped");
                let _ = nbuckets;
                return;
            }
        }
    }
    // ---- protocol: the environment
    let leaves_txt = {
        let mut parts = Vec::new();
        for b in &c.leaves {
            let ls: Vec<String> = b.iter().map(|(sep, es)| format!("{}={}", hex(sep), show_entries(es))).collect();
            parts.push(ls.join(";"));
        }
        if parts.is_empty() {
            "-".to_string()
        } else {
            parts.join(";")
        }
    };
    let record = !r.chance(1, 8);
    out.line(
        format!(
            "skenv {} {} {} {} {} {}",
            hex(&root),
            record as u8,
            show_chgs(&c.primary),
            c.secondary.as_ref().map(|s| show_chgs(s)).unwrap_or("none".into()),
            leaves_txt,
            show_chgs(&c.ov_fold.iter().map(|(k, ch)| (*k, ch.clone())).collect::<Vec<_>>())
        ),
        "ok".into(),
    );
    for (_, img) in ovl_pages.iter().chain(stale_ovl.iter()) {
        out.line(format!("skpage ovl {}", img.show()), "ok".into());
    }
    for (_, img) in &cache_pages {
        out.line(format!("skpage cache {}", img.show()), "ok".into());
    }
    for (_, img) in &tree.stored {
        out.line(format!("skpage disk {}", img.show()), "ok".into());
    }
    for id in &stored_ids {
        let hits = table.possible_hits(&mk_pid(id), 64);
        if hits.len() > 1 {
            out.count("pages_behind_a_misprobe");
        }
        out.line(
            format!("mxprobe {} {}", path_str(id), if hits.is_empty() { "-".to_string() } else { hits.iter().map(|b| b.to_string()).collect::<Vec<_>>().join(",") }),
            "ok".into(),
        );
    }
    for (b, (label, _)) in &buckets {
        out.line(format!("mxbucket {b} {}", path_str(label)), "ok".into());
    }
    let flat_leaves: Vec<&(Key, Vec<(Key, PVal)>)> = c.leaves.iter().flatten().collect();
    let cached_leaves: Vec<usize> = {
        let p = *r.pick(&[0usize, 0, 1, 2, 4]);
        (0..flat_leaves.len()).filter(|_| r.chance(p, 4)).collect()
    };
    let max_inflight: Option<usize> = match r.below(6) {
        0 => Some(1),
        1 => Some(2),
        2 => Some(3),
        3 => Some(r.range(4, 8)),
        _ => None,
    };
    out.line(format!("mxnew {} {}", max_inflight.unwrap_or(1024), nats(&cached_leaves)), "ok".into());
    let branches: Vec<Vec<LeafSpec>> =
        c.leaves.iter().map(|b| b.iter().map(|(sep, es)| (*sep, es.iter().map(|(k, v)| (*k, v.val())).collect())).collect()).collect();
    let to_stage = |s: &Vec<(Key, Chg)>| -> Vec<(Key, Option<Val>)> { s.iter().map(|(k, ch)| (*k, ch.as_ref().map(|v| v.val()))).collect() };
    let mut sim: SeekerSim = match live.seeker_sim(
        root,
        to_stage(&c.primary),
        c.secondary.as_ref().map(to_stage),
        branches,
        record,
        table,
        buckets.iter().map(|(b, (_, bytes))| (*b, bytes.clone())).collect(),
        cache_pages.iter().map(|(id, img)| (mk_pid(id), img.bytes())).collect(),
        cached_leaves.clone(),
        max_inflight,
    ) {
        Ok(s) => s,
        Err(e) => {
            out.fail(format!("harness: SeekerSim::new failed: {e}"));
            return;
        }
    };
    // ---- drive
    let style = r.below(3); // 0 random, 1 the update loop's discipline, 2 push everything first
    let mut to_push: Vec<Key> = c.queries.clone();
    to_push.reverse();
    let mut pushed: Vec<Key> = Vec::new();
    let mut taken = 0usize;
    let mut loaded_pages: BTreeSet<Vec<u8>> = BTreeSet::new();
    let mut seen_slab: BTreeMap<usize, usize> = BTreeMap::new(); // slab index -> how often occupied anew
    let mut prev_slab: BTreeSet<usize> = BTreeSet::new();
    let mut steps = 0usize;
    let mut idle_rounds = 0usize;
    let mut sig = String::new();
    macro_rules! state {
        ($op:expr, $res:expr) => {{
            let op_: String = $op;
            match $res {
                Some(()) => {
                    let v = sim.view();
                    out.line(op_.clone(), mux_line(&v));
                    if !malformed {
                        check_view(c, &v, &pushed, taken, &mut loaded_pages, &mut seen_slab, &mut prev_slab, out);
                    }
                }
                None => {
                    out.line(op_.clone(), "panic".into());
                    if !malformed {
                        out.fail(format!("C05 the Seeker PANICS ({}; {})", op_, c.desc));
                    } else {
                        out.nontrivial("panic-malformed");
                    }
                    return;
                }
            }
        }};
    }
    loop {
        steps += 1;
        if steps > 6000 {
            out.fail(format!("C05 the seeker does not finish within 6000 calls ({})", c.desc));
            return;
        }
        if to_push.is_empty() && sim.is_empty() {
            break;
        }
        let inflight = sim.in_flight();
        let choice = match style {
            1 => steps % 4,
            2 if !to_push.is_empty() => 0,
            _ => r.below(4),
        };
        match choice {
            0 if !to_push.is_empty() && (style != 1 || sim.has_room()) => {
                let k = to_push.pop().unwrap();
                pushed.push(k);
                state!(format!("mxpush {}", hex(&k)), guard(|| sim.push(k)));
                idle_rounds = 0;
            }
            1 => {
                if !sim.has_room() {
                    out.count("backpressure_hits");
                }
                let before = mux_line(&sim.view());
                state!("mxsubmit".to_string(), guard(|| sim.submit_all()));
                if mux_line(&sim.view()) != before {
                    idle_rounds = 0;
                }
            }
            2 => {
                let res = guard(|| sim.take_completion());
                match res {
                    None => {
                        out.line("mxtake".into(), "panic".into());
                        if !malformed {
                            out.fail(format!("C05 take_completion PANICS ({})", c.desc));
                        }
                        return;
                    }
                    Some(None) => out.line("mxtake".into(), "none".into()),
                    Some(Some(s)) => {
                        idle_rounds = 0;
                        let t = match &s.terminal {
                            None => "T".to_string(),
                            Some((k, vh)) => format!("L:{}:{}", hex(k), hex(vh)),
                        };
                        out.line(
                            "mxtake".into(),
                            format!(
                                "seek key={} d={} raw={} pid={} term={t} sibs={} ios={}",
                                hex(&s.key),
                                s.depth,
                                hex(&s.raw_path),
                                s.page_id.as_ref().map(pid_str).unwrap_or("none".into()),
                                nodes_line(&s.siblings),
                                s.ios
                            ),
                        );
                        // C05 order / exactly-once oracle
                        if taken >= pushed.len() || pushed[taken] != s.key {
                            out.fail(format!(
                                "C05 completion #{taken} is for key {}, the {}th pushed key is {} ({})",
                                hex(&s.key),
                                taken,
                                pushed.get(taken).map(|k| hex(k)).unwrap_or("<none>".into()),
                                c.desc
                            ));
                        } else if !malformed {
                            check_result(c, &root, taken, record, &s.raw_path, s.depth, &s.page_id, &s.siblings, &s.terminal, &[], &[], &flat_leaves, out);
                        }
                        taken += 1;
                        out.add("ios_total", s.ios as u64);
                    }
                }
                let v = sim.view();
                out.line("mxq".into(), format!("empty={} room={} first={} live={}", sim.is_empty(), sim.has_room(), sim.first_key().map(|k| hex(&k)).unwrap_or("-".into()), sim.has_live_requests()));
                let _ = v;
            }
            _ => {
                if inflight.is_empty() {
                    // nothing to deliver
                    idle_rounds += 1;
                    if idle_rounds > 12 && !sim.is_empty() {
                        // stall? everything was tried: take, submit, nothing in flight
                        let v = sim.view();
                        let front_done = v.requests.first().map_or(false, |q| matches!(q.state, StateView::Completed(_)));
                        if !front_done {
                            let before = mux_line(&v);
                            let _ = guard(|| sim.submit_all());
                            let v2 = sim.view();
                            out.line("mxsubmit".into(), mux_line(&v2));
                            if mux_line(&v2) == before && v2.in_flight.is_empty() {
                                if !sim.has_room() && v2.idle_page_loads.len() == v2.slab.len() {
                                    out.count("stall_no_room_all_loads_idle");
                                    out.nontrivial(&format!("stall|{}", v2.slab.len()));
                                    return;
                                }
                                if !malformed {
                                    out.fail(format!("C05 the seeker STALLS: live request, nothing in flight, submit_all changes nothing ({})", c.desc));
                                }
                                return;
                            }
                            idle_rounds = 0;
                        }
                    }
                    continue;
                }
                idle_rounds = 0;
                // complete one to three reads, in any order, then let the seeker receive them
                let n = r.range(1, 3).min(inflight.len());
                let mut rest = inflight.clone();
                let mut chosen = Vec::new();
                for _ in 0..n {
                    let j = if r.chance(1, 3) { rest.len() - 1 } else { r.below(rest.len()) };
                    chosen.push(rest.remove(j));
                }
                if chosen.len() > 1 || chosen[0].0 != inflight[0].0 {
                    out.count("out_of_order_completions");
                }
                for (ud, what) in &chosen {
                    let fail = malformed && r.chance(1, 10);
                    if !sim.complete(*ud, fail) {
                        out.fail("harness: complete() found no such read".into());
                        return;
                    }
                    if let InFlight::Leaf(_) = what {
                        out.count("leaf_reads_completed");
                    } else {
                        out.count("bucket_reads_completed");
                    }
                    let op = if fail { format!("mxfail {ud}") } else { format!("mxrecv {ud}") };
                    let blocking = r.chance(1, 2);
                    let res = guard(|| if blocking { sim.recv_page() } else { sim.try_recv_page() });
                    match res {
                        Some(Ok(())) if !fail => state!(op, Some(())),
                        Some(Err(_)) if fail => state!(op, Some(())),
                        Some(_) => {
                            out.fail(format!("C05 recv_page returned the wrong result for {op}"));
                            return;
                        }
                        None => state!(op, None::<()>),
                    }
                }
            }
        }
    }
    if taken != pushed.len() {
        out.fail(format!("C05 {} keys pushed, {} completions delivered ({})", pushed.len(), taken, c.desc));
    }
    // ---- the page set at the end
    let ids = sim.page_set_ids();
    out.line(
        "skset".into(),
        if ids.is_empty() { "-".into() } else { ids.iter().map(|(p, rec)| format!("{}:{}", pid_str(p), if *rec { "R" } else { "P" })).collect::<Vec<_>>().join(",") },
    );
    sig.push_str(&format!("{}|{}|{}|{:?}", c.desc, c.queries.len(), steps, max_inflight));
    out.nontrivial(&sig);
}

#[allow(clippy::too_many_arguments)]
fn check_view(
    c: &Case,
    v: &SeekerView,
    pushed: &[Key],
    taken: usize,
    loaded_pages: &mut BTreeSet<Vec<u8>>,
    seen_slab: &mut BTreeMap<usize, usize>,
    prev_slab: &mut BTreeSet<usize>,
    out: &mut Sink,
) {
    if v.processed != taken || v.processed + v.requests.len() != pushed.len() {
        out.fail(format!("C05 processed={} live={} but {} pushed / {} taken ({})", v.processed, v.requests.len(), pushed.len(), taken, c.desc));
    }
    // sharing: one slab entry per page / leaf; one waiter list per slab entry
    let mut what: BTreeSet<String> = BTreeSet::new();
    for (_, e) in &v.slab {
        let k = match e {
            SlabView::Merkle { page_id, .. } => format!("P:{}", pid_str(page_id)),
            SlabView::Leaf(l) => format!("L:{l}"),
        };
        if !what.insert(k.clone()) {
            out.fail(format!("C13 two loads of {k} are in progress at once ({})", c.desc));
        }
    }
    let wkeys: BTreeSet<String> = v.waiters.iter().map(|(q, _)| aw_str(&Some(q.clone()))).collect();
    if wkeys != what {
        out.fail(format!("C13 waiter lists {:?} do not match the loads in progress {:?} ({})", wkeys, what, c.desc));
    }
    // slab index use
    let now: BTreeSet<usize> = v.slab.iter().map(|x| x.0).collect();
    for i in now.difference(prev_slab) {
        let n = seen_slab.entry(*i).or_insert(0);
        *n += 1;
        if *n > 1 {
            out.count("slab_index_reused");
        }
        if let Some((_, SlabView::Merkle { page_id, .. })) = v.slab.iter().find(|x| x.0 == *i) {
            let id = page_id.length_dependent_encoding().to_vec();
            if !loaded_pages.insert(id) {
                out.fail(format!("C13 page {} is loaded a second time by the same seeker ({})", pid_str(page_id), c.desc));
            }
        }
    }
    *prev_slab = now;
    // in-flight reads
    let mut uds: BTreeSet<u64> = BTreeSet::new();
    for (ud, cmd) in &v.in_flight {
        if !uds.insert(*ud) {
            out.fail(format!("C05 two reads in flight carry the user data {ud} ({})", c.desc));
        }
        match (v.slab.iter().find(|x| x.0 == *ud as usize).map(|x| &x.1), cmd) {
            (Some(SlabView::Merkle { bucket, submitted: true, .. }), InFlight::Bucket(b)) if bucket == b => {}
            (Some(SlabView::Leaf(l)), InFlight::Leaf(l2)) if l == l2 => {}
            (e, _) => out.fail(format!("C05 the read {ud}:{cmd:?} in flight does not match its slab entry {e:?} ({})", c.desc)),
        }
    }
    for i in &v.idle_page_loads {
        if !matches!(v.slab.iter().find(|x| x.0 == *i).map(|x| &x.1), Some(SlabView::Merkle { submitted: false, .. })) {
            out.fail(format!("C05 idle page load {i} is not a pending merkle load ({})", c.desc));
        }
    }
    if v.slab.len() != v.in_flight.len() + v.idle_page_loads.len() {
        out.fail(format!("C05 {} loads in the slab, {} in flight + {} idle ({})", v.slab.len(), v.in_flight.len(), v.idle_page_loads.len(), c.desc));
    }
    // no waiter lost
    for (i, q) in v.requests.iter().enumerate() {
        let idx = v.processed + i;
        let waiting = v.waiters.iter().filter(|(_, w)| w.contains(&idx)).count();
        let idle = v.idle_requests.iter().filter(|x| **x == idx).count();
        let done = matches!(q.state, StateView::Completed(_));
        if done && waiting != 0 {
            out.fail(format!("C13 completed request {idx} is on a waiter list ({})", c.desc));
        }
        if !done && waiting + idle != 1 {
            out.fail(format!("C13 live request {idx} is on {waiting} waiter lists and {idle} times in the idle queue ({})", c.desc));
        }
    }
    for (q, w) in &v.waiters {
        if w.len() >= 2 {
            out.count(if matches!(q, Awaiting::Page(_)) { "states_with_shared_page_load" } else { "states_with_shared_leaf_load" });
        }
        for idx in w {
            if *idx < v.processed || *idx >= v.processed + v.requests.len() {
                out.fail(format!("C13 waiter {idx} of {} is not a live request ({})", aw_str(&Some(q.clone())), c.desc));
            }
        }
    }
    if !v.idle_page_loads.is_empty() {
        out.count("states_with_idle_page_load");
    }
}
