//! Harness side of the cfg(nomt_verif) I/O hook: event trace, before-image journal of un-fsynced
//! effects, crash (abort at event k, optionally after reverting un-synced effects = power loss) and
//! fault injection (event k completes with EIO).
use nomt::verif_hook::{self, Event, Kind, Phase};
use std::collections::HashMap;
use std::os::unix::fs::FileExt;
use std::sync::{Arc, Mutex};

#[derive(Clone, Debug, PartialEq)]
pub enum Mode {
    Off,
    Observe,
    /// abort the process when the k-th Begin event (0-based, counted while armed) is about to be issued
    AbortAt(u64),
    /// the k-th Begin event fails with EIO (once, or that one and every later one)
    FailAt(u64, bool),
}

#[derive(Clone, Debug)]
pub enum Loss {
    /// process crash: everything issued so far stays
    None,
    /// power loss: every effect not covered by a completed fsync of its file is reverted
    All,
    /// each un-synced effect is reverted independently with probability 1/2 (seeded)
    Random(u64),
    /// only the j-th un-synced effect (mod count) is reverted
    OnlyLose(usize),
    /// all un-synced effects but the j-th are reverted
    OnlyKeep(usize),
}

#[derive(Clone, Debug)]
pub struct Ev {
    pub idx: u64, // index among Begin events (End carries the idx of the next Begin)
    pub file: String,
    pub kind: Kind,
    pub phase: Phase,
    pub offset: u64,
    pub len: u64,
    pub site: &'static str,
    pub thread: u64,
}

#[derive(Debug)]
struct JEntry {
    path: String,
    file: String,
    kind: Kind,
    offset: u64,
    len: u64,
    before: Vec<u8>,
    old_len: u64,
    begin_order: u64,
    ended: bool,
    end_order: u64,
    synced: bool,
    thread: u64,
    backup: Option<String>,
}

pub struct State {
    pub mode: Mode,
    pub loss: Loss,
    pub begins: u64,
    pub order: u64,
    pub log: Vec<Ev>,
    journal: Vec<JEntry>,
    inflight: i64,
    /// operations of every kind that were let through their Begin and have not reported their End yet
    inflight_all: i64,
    pub trace_path: Option<String>,
    pub unsynced_at_begin: Vec<usize>,
    pub failed_injected: u64,
}

static STATE: Mutex<Option<State>> = Mutex::new(None);

fn thread_id() -> u64 {
    // stable-enough numeric id
    let s = format!("{:?}", std::thread::current().id());
    s.chars().filter(|c| c.is_ascii_digit()).collect::<String>().parse().unwrap_or(0)
}

fn fd_path(fd: i32) -> String {
    std::fs::read_link(format!("/proc/self/fd/{fd}")).map(|p| p.to_string_lossy().to_string()).unwrap_or_else(|_| format!("fd{fd}"))
}

fn short(path: &str) -> String {
    let name = path.rsplit('/').next().unwrap_or(path);
    if name.starts_with("rollback") {
        format!("rollback:{name}")
    } else if name.starts_with("nomt-verif-db") {
        "dir".to_string()
    } else {
        name.to_string()
    }
}

fn read_before(path: &str, offset: u64, len: u64) -> (Vec<u8>, u64) {
    match std::fs::File::open(path) {
        Ok(f) => {
            let flen = f.metadata().map(|m| m.len()).unwrap_or(0);
            let mut buf = vec![0u8; len as usize];
            if offset < flen {
                let n = ((flen - offset).min(len)) as usize;
                let _ = f.read_exact_at(&mut buf[..n], offset);
            }
            (buf, flen)
        }
        Err(_) => (vec![], 0),
    }
}

pub fn install(mode: Mode, loss: Loss, trace_path: Option<String>) {
    *STATE.lock().unwrap() = Some(State {
        mode,
        loss,
        begins: 0,
        order: 0,
        log: vec![],
        journal: vec![],
        inflight: 0,
        inflight_all: 0,
        trace_path,
        unsynced_at_begin: vec![],
        failed_injected: 0,
    });
    verif_hook::set_handler(Some(Arc::new(handler)));
}

/// stop observing; returns the state (trace etc.)
pub fn uninstall() -> Option<State> {
    verif_hook::set_handler(None);
    STATE.lock().unwrap().take()
}

pub fn set_mode(mode: Mode) {
    if let Some(s) = STATE.lock().unwrap().as_mut() {
        s.mode = mode;
    }
}

/// the events (Begin and End, in the order the hook saw them) recorded since the Begin event with index `from`
/// (trace lines for the placement / order monitors; an End line carries the index of the next Begin)
pub fn trace_lines_since(from: u64) -> Vec<String> {
    let g = STATE.lock().unwrap();
    match g.as_ref() {
        Some(s) => {
            let start = s.log.iter().position(|e| e.phase == Phase::Begin && e.idx >= from).unwrap_or(s.log.len());
            s.log[start..]
                .iter()
                .map(|e| format!("{} {:?} {:?} {} {} {} {} t{}", e.idx, e.phase, e.kind, e.file, e.offset, e.len, e.site, e.thread))
                .collect()
        }
        None => vec![],
    }
}

/// number of injected failures so far
pub fn failed_injected() -> u64 {
    STATE.lock().unwrap().as_ref().map(|s| s.failed_injected).unwrap_or(0)
}

/// operations that were let through their Begin and have not reported their End yet
pub fn inflight() -> i64 {
    STATE.lock().unwrap().as_ref().map(|s| s.inflight_all.max(s.inflight)).unwrap_or(0)
}

/// the labels `<file>:<Kind>:<site>` of the Begin events with index >= `from`, in the order the hook saw them
/// (file: `meta ln bbn ht wal rollback dir`) — the step labels of the Lean pipeline model (`Api/PipelineTrace.lean`)
pub fn labels_since(from: u64) -> Vec<String> {
    let g = STATE.lock().unwrap();
    match g.as_ref() {
        Some(s) => s
            .log
            .iter()
            .filter(|e| e.phase == Phase::Begin && e.idx >= from && !e.file.starts_with("ABORT"))
            .map(|e| format!("{}:{:?}:{}", e.file.split(':').next().unwrap_or(""), e.kind, e.site))
            .collect(),
        None => vec![],
    }
}

/// a pipeline step reported by `verif_hook::step` (hook H14): a marker in the event log (phase End, file `STEP`: invisible to
/// everything that looks at Begin events)
pub fn record_step(name: &'static str) {
    if let Some(s) = STATE.lock().unwrap().as_mut() {
        let idx = s.begins;
        s.log.push(Ev { idx, file: "STEP".into(), kind: Kind::Fsync, phase: Phase::End, offset: 0, len: 0, site: name, thread: thread_id() });
    }
}

/// number of entries of the event log (a position for `seq_from`)
pub fn log_len() -> usize {
    STATE.lock().unwrap().as_ref().map(|s| s.log.len()).unwrap_or(0)
}

/// the steps (`s:<name>`) and I/O Begin events (`io:<file>:<Kind>:<site>`) logged from position `pos` on, in order
pub fn seq_from(pos: usize) -> Vec<String> {
    let g = STATE.lock().unwrap();
    match g.as_ref() {
        Some(s) => s.log[pos.min(s.log.len())..]
            .iter()
            .filter_map(|e| {
                if e.file == "STEP" {
                    Some(format!("s:{}", e.site))
                } else if e.phase == Phase::Begin && !e.file.starts_with("ABORT") {
                    Some(format!("io:{}:{:?}:{}", e.file.split(':').next().unwrap_or(""), e.kind, e.site))
                } else {
                    None
                }
            })
            .collect(),
        None => vec![],
    }
}

/// every I/O event (Begin AND End; steps excluded) logged from position `pos` on: `<Phase>:<file>:<Kind>:<site>`
pub fn events_from(pos: usize) -> Vec<String> {
    let g = STATE.lock().unwrap();
    match g.as_ref() {
        Some(s) => s.log[pos.min(s.log.len())..]
            .iter()
            .filter(|e| e.file != "STEP" && !e.file.starts_with("ABORT"))
            .map(|e| format!("{:?}:{}:{:?}:{}", e.phase, e.file.split(':').next().unwrap_or(""), e.kind, e.site))
            .collect(),
        None => vec![],
    }
}

pub fn begins() -> u64 {
    STATE.lock().unwrap().as_ref().map(|s| s.begins).unwrap_or(0)
}

fn unsynced_indices(j: &[JEntry]) -> Vec<usize> {
    (0..j.len()).filter(|&i| !j[i].synced).collect()
}

fn revert(j: &mut Vec<JEntry>, lose: &[usize]) {
    // newest first, so that before-images chain correctly
    let mut idx: Vec<usize> = lose.to_vec();
    idx.sort_by(|a, b| j[*b].begin_order.cmp(&j[*a].begin_order));
    for i in idx {
        let e = &j[i];
        match e.kind {
            Kind::Write => {
                if let Ok(f) = std::fs::OpenOptions::new().write(true).open(&e.path) {
                    let _ = f.write_all_at(&e.before, e.offset);
                }
            }
            Kind::Append | Kind::SetLen => {
                if let Ok(f) = std::fs::OpenOptions::new().write(true).open(&e.path) {
                    // appends / resizes: restore the old length, then the overwritten bytes (if any)
                    let _ = f.set_len(e.old_len);
                    if !e.before.is_empty() && e.offset < e.old_len {
                        let n = ((e.old_len - e.offset) as usize).min(e.before.len());
                        let _ = f.write_all_at(&e.before[..n], e.offset);
                    }
                }
            }
            Kind::Unlink => {
                if let Some(b) = &e.backup {
                    let _ = std::fs::rename(b, &e.path);
                }
            }
            Kind::Create => {
                let _ = std::fs::remove_file(&e.path);
            }
            _ => {}
        }
    }
}

fn write_trace(s: &State) {
    if let Some(p) = &s.trace_path {
        let mut out = String::new();
        for e in &s.log {
            out.push_str(&format!(
                "{} {:?} {:?} {} {} {} {} t{}\n",
                e.idx, e.phase, e.kind, e.file, e.offset, e.len, e.site, e.thread
            ));
        }
        let _ = std::fs::write(p, out);
    }
}

fn cleanup_backups(j: &[JEntry], reverted: &[usize]) {
    for (i, e) in j.iter().enumerate() {
        if let Some(b) = &e.backup {
            if !reverted.contains(&i) {
                let _ = std::fs::remove_file(b);
            }
        }
    }
}

/// crash point: called on the Begin of the event the process must not survive
fn maybe_abort(ev: &Event<'_>) {
    let is_abort = {
        let g = STATE.lock().unwrap();
        g.as_ref().map_or(false, |s| matches!(s.mode, Mode::AbortAt(k) if s.begins == k))
    };
    if !is_abort {
        return;
    }
    // drain: let every operation that was already let through its Begin complete (bounded wait) — submitted page
    // writes, but also a synchronous call (unlink, resize, append, fsync) of another thread that has passed its Begin
    // and not yet performed / finished the system call: it must not take effect AFTER the simulated power loss has
    // reverted the un-synced effects (every other thread parks at its next Begin)
    let t0 = std::time::Instant::now();
    loop {
        let inflight = STATE.lock().unwrap().as_ref().map_or(0, |s| s.inflight.max(s.inflight_all));
        if inflight <= 0 || t0.elapsed().as_millis() > 3000 {
            break;
        }
        std::thread::sleep(std::time::Duration::from_millis(1));
    }
    let mut guard = STATE.lock().unwrap();
    let Some(s) = guard.as_mut() else { unsafe { libc::_exit(78) } };
    let idx = s.begins;
    let uns = unsynced_indices(&s.journal);
    let lose: Vec<usize> = match &s.loss {
        Loss::None => vec![],
        Loss::All => uns.clone(),
        Loss::Random(seed) => {
            let mut r = crate::util::Rng::new(*seed);
            uns.iter().cloned().filter(|_| r.chance(1, 2)).collect()
        }
        Loss::OnlyLose(j) => {
            if uns.is_empty() {
                vec![]
            } else {
                vec![uns[j % uns.len()]]
            }
        }
        Loss::OnlyKeep(j) => {
            if uns.is_empty() {
                vec![]
            } else {
                let keep = uns[j % uns.len()];
                uns.iter().cloned().filter(|&x| x != keep).collect()
            }
        }
    };
    // Directory entries: the file systems nomt runs on (ext4, xfs, btrfs, apfs) journal the operations on one
    // directory in issue order, so a power loss takes away a SUFFIX of the un-synced creates / unlinks, never an
    // earlier one while a later one stays. (Data pages have no such order: any subset of them may be lost.)
    let mut lose = lose;
    let is_dir_op = |k: Kind| matches!(k, Kind::Create | Kind::Unlink);
    if let Some(first) = lose.iter().filter(|&&i| is_dir_op(s.journal[i].kind)).map(|&i| s.journal[i].begin_order).min() {
        for &i in &uns {
            if is_dir_op(s.journal[i].kind) && s.journal[i].begin_order > first && !lose.contains(&i) {
                lose.push(i);
            }
        }
    }
    revert(&mut s.journal, &lose);
    cleanup_backups(&s.journal, &lose);
    s.log.push(Ev { idx, file: format!("ABORT unsynced={} lost={}", uns.len(), lose.len()), kind: ev.kind, phase: Phase::Begin, offset: ev.offset, len: ev.len, site: ev.site, thread: thread_id() });
    write_trace(s);
    unsafe { libc::_exit(77) }
}

fn handler(ev: &Event<'_>) -> std::io::Result<()> {
    if ev.phase == Phase::Begin {
        maybe_abort(ev);
    }
    let mut guard = STATE.lock().unwrap();
    let Some(s) = guard.as_mut() else { return Ok(()) };
    if s.mode == Mode::Off {
        return Ok(());
    }
    let path = match (ev.fd, ev.path) {
        (Some(fd), _) => fd_path(fd),
        (_, Some(p)) => p.to_string_lossy().to_string(),
        _ => "?".into(),
    };
    let file = short(&path);
    let th = thread_id();
    s.order += 1;
    let order = s.order;
    match ev.phase {
        Phase::Begin => {
            let idx = s.begins;
            s.begins += 1;
            s.log.push(Ev { idx, file: file.clone(), kind: ev.kind, phase: Phase::Begin, offset: ev.offset, len: ev.len, site: ev.site, thread: th });
            let uns = s.journal.iter().filter(|e| !e.synced).count();
            s.unsynced_at_begin.push(uns);
            // ---- fault injection ----
            if let Mode::FailAt(k, persistent) = s.mode {
                if idx == k || (persistent && idx > k) {
                    s.failed_injected += 1;
                    return Err(std::io::Error::from_raw_os_error(libc::EIO));
                }
            }
            s.inflight_all += 1;
            // ---- journal ----
            match ev.kind {
                Kind::Write | Kind::Append | Kind::SetLen => {
                    let (before, old_len) = match ev.kind {
                        Kind::Write => read_before(&path, ev.offset, ev.len),
                        Kind::Append => read_before(&path, ev.offset, ev.len.min(1 << 20)),
                        _ => read_before(&path, 0, 0),
                    };
                    // a resize to a smaller length destroys bytes: keep them
                    let (before, offset) = if ev.kind == Kind::SetLen && ev.offset < old_len {
                        let (b, _) = read_before(&path, ev.offset, (old_len - ev.offset).min(64 << 20));
                        (b, ev.offset)
                    } else {
                        (before, ev.offset)
                    };
                    if ev.kind == Kind::Write {
                        s.inflight += 1;
                    }
                    s.journal.push(JEntry { path, file, kind: ev.kind, offset, len: ev.len, before, old_len, begin_order: order, ended: false, end_order: 0, synced: false, thread: th, backup: None });
                }
                Kind::Unlink => {
                    let backup = format!("{}.vbak{}", path.replace("/rollback", "/vbak-rollback"), order);
                    let b = if std::fs::hard_link(&path, &backup).is_ok() { Some(backup) } else { None };
                    s.journal.push(JEntry { path, file, kind: ev.kind, offset: 0, len: 0, before: vec![], old_len: 0, begin_order: order, ended: true, end_order: order, synced: false, thread: th, backup: b });
                }
                Kind::Create => {
                    s.journal.push(JEntry { path, file, kind: ev.kind, offset: 0, len: 0, before: vec![], old_len: 0, begin_order: order, ended: true, end_order: order, synced: false, thread: th, backup: None });
                }
                Kind::Fsync | Kind::DirSync => {
                    // remember which effects this sync will cover: those of the same file that have
                    // completed before the sync was issued
                    s.journal.push(JEntry { path, file, kind: ev.kind, offset: 0, len: 0, before: vec![], old_len: 0, begin_order: order, ended: false, end_order: 0, synced: true, thread: th, backup: None });
                }
            }
            Ok(())
        }
        Phase::End => {
            let idx = s.begins;
            if s.inflight_all > 0 {
                s.inflight_all -= 1;
            }
            s.log.push(Ev { idx, file: file.clone(), kind: ev.kind, phase: Phase::End, offset: ev.offset, len: ev.len, site: ev.site, thread: th });
            match ev.kind {
                Kind::Write | Kind::Append | Kind::SetLen => {
                    // the oldest matching un-ended entry
                    if let Some(e) = s.journal.iter_mut().find(|e| !e.ended && e.kind == ev.kind && e.file == file && (e.offset == ev.offset || ev.kind == Kind::SetLen)) {
                        e.ended = true;
                        e.end_order = order;
                    }
                    if ev.kind == Kind::Write {
                        s.inflight -= 1;
                    }
                }
                Kind::Fsync => {
                    // find the begin of this sync (same file, same thread, not ended)
                    let mut begin_order = 0;
                    if let Some(e) = s.journal.iter_mut().rev().find(|e| e.kind == Kind::Fsync && !e.ended && e.file == file && e.thread == th) {
                        e.ended = true;
                        e.end_order = order;
                        begin_order = e.begin_order;
                    }
                    for e in s.journal.iter_mut() {
                        if e.file == file && matches!(e.kind, Kind::Write | Kind::Append | Kind::SetLen) && e.ended && e.end_order < begin_order {
                            e.synced = true;
                        }
                    }
                }
                Kind::DirSync => {
                    let mut begin_order = 0;
                    if let Some(e) = s.journal.iter_mut().rev().find(|e| e.kind == Kind::DirSync && !e.ended && e.thread == th) {
                        e.ended = true;
                        e.end_order = order;
                        begin_order = e.begin_order;
                    }
                    for e in s.journal.iter_mut() {
                        if matches!(e.kind, Kind::Create | Kind::Unlink) && e.end_order < begin_order && !e.synced {
                            e.synced = true;
                            if let Some(b) = e.backup.take() {
                                let _ = std::fs::remove_file(b);
                            }
                        }
                    }
                }
                _ => {}
            }
            // keep the journal small: drop synced entries
            if s.journal.len() > 4096 {
                s.journal.retain(|e| !e.synced || !e.ended);
            }
            Ok(())
        }
    }
}

/// summary of an observed trace: per-file counts (for evidence) and the raw lines
pub fn summarize(s: &State) -> HashMap<String, u64> {
    let mut m = HashMap::new();
    for e in &s.log {
        if e.phase == Phase::Begin {
            *m.entry(format!("{:?}:{}", e.kind, e.file.split(':').next().unwrap_or(""))).or_insert(0) += 1;
        }
    }
    m
}
