//! C01 / C19 / C16: the leaf stage of the B-tree update — the REAL `LeafUpdater`
//! (`beatree/ops/update/leaf_updater.rs`) driven through `nomt::verif_api::leaf_updater` (hook H9, cfg nomt_verif) on
//! caller-built base leaves, the way `leaf_stage.rs::run_worker` drives it: `reset_base` to the leaf covering the next
//! changed key, `ingest` while the key is in scope, `digest` when it is not, `reset_base` to the next leaf on
//! `NeedsMerge(cutoff)`, `digest` until `Finished` at the end.  Every call is one protocol line for the Lean driver's
//! `leafupd` mode (mirror `Store/LeafUpdModel.lean`): the produced leaves (entries, separators, cutoffs), the
//! `DigestResult`s, the overflow-callback log and the private state (`ops`, gauge, `base.low`, `separator_override`) are
//! compared after every call.
//!
//! Oracles that do not depend on the model (a `BTreeMap` and a recomputation of the sizes):
//!   * C01: the concatenation of untouched old leaves and produced leaves, left to right, is the old content with the
//!     changes applied (nothing lost, nothing duplicated, ascending);
//!   * C16: every produced leaf is non-empty, holds at most LEAF_NODE_BODY_SIZE bytes, at least LEAF_MERGE_THRESHOLD
//!     unless it is the rightmost one; its separator is at most its first key and above the last key in front of it; the
//!     cutoff handed to `handle_new_leaf` is the separator of the next leaf;
//!   * C19: `with_deleted_overflow` is called exactly for the overflow cells of old entries that are deleted or
//!     replaced, once each, in key order;
//!   * no call panics on a well-formed scenario.
use crate::util::*;
use nomt::verif_api::leaf_updater as lu;
use std::collections::BTreeMap;
use std::panic::{catch_unwind, AssertUnwindSafe};

type Entry = lu::Entry;

const BODY: usize = lu::LEAF_NODE_BODY_SIZE;
const MERGE: usize = lu::LEAF_MERGE_THRESHOLD;
const MAXV: usize = lu::MAX_LEAF_VALUE_SIZE;

fn cell_str(v: &[u8]) -> String {
    if v.is_empty() {
        "_".into()
    } else {
        hex(v)
    }
}
fn optkey_str(k: &Option<Key>) -> String {
    match k {
        None => "-".into(),
        Some(k) => hex(k),
    }
}
fn entries_str(es: &[Entry]) -> String {
    if es.is_empty() {
        return "-".into();
    }
    es.iter()
        .map(|(k, v, o)| format!("{}:{}:{}", hex(k), cell_str(v), if *o { 1 } else { 0 }))
        .collect::<Vec<_>>()
        .join(",")
}
fn base_str(b: &Option<(Vec<Entry>, Key)>) -> String {
    match b {
        None => "-".into(),
        Some((es, sep)) => format!("{}/{}", hex(sep), entries_str(es)),
    }
}
/// `tail`: only the number of ops and the last two (an `ingest` appends at most two)
fn state_str(s: &lu::StateView, tail: bool) -> String {
    let skip = if tail { s.ops.len().saturating_sub(2) } else { 0 };
    let ops = if s.ops.is_empty() {
        "-".to_string()
    } else {
        s.ops
            .iter()
            .skip(skip)
            .map(|op| match op {
                lu::OpView::Insert(k, len, o) => format!("I:{}:{}:{}", hex(k), len, if *o { 1 } else { 0 }),
                lu::OpView::KeepChunk(f, t, vs) => format!("K:{f}:{t}:{vs}"),
            })
            .collect::<Vec<_>>()
            .join(",")
    };
    let ops = if tail { format!("{}#{}", s.ops.len(), ops) } else { ops };
    format!(
        "ops={} g={}/{} low={} so={} cut={}",
        ops,
        s.gauge.0,
        s.gauge.1,
        s.low.map(|l| l.to_string()).unwrap_or("-".into()),
        optkey_str(&s.separator_override),
        optkey_str(&s.cutoff)
    )
}
fn leaves_str(ls: &[lu::Produced]) -> String {
    if ls.is_empty() {
        return "-".into();
    }
    ls.iter()
        .map(|(sep, es, cut)| format!("{}|{}|{}", hex(sep), entries_str(es), optkey_str(cut)))
        .collect::<Vec<_>>()
        .join(";")
}

fn body(es: &[Entry]) -> usize {
    es.iter().map(|(_, v, _)| 34 + v.len()).sum()
}

/// the real updater behind `catch_unwind`, one protocol line per call
struct Drv {
    sim: Option<lu::LeafUpdaterSim>,
    dead: bool,
}

enum Dig {
    Panic,
    Err(Vec<lu::Produced>),
    Ok(Vec<lu::Produced>, Option<Key>),
}

impl Drv {
    fn new_(&mut self, out: &mut Sink, base: Option<(Vec<Entry>, Key)>, cutoff: Option<Key>) {
        let op = format!("new {} {}", base_str(&base), optkey_str(&cutoff));
        let r = catch_unwind(AssertUnwindSafe(|| {
            lu::LeafUpdaterSim::new(base.as_ref().map(|(e, s)| (&e[..], *s)), cutoff)
        }));
        match r {
            Ok(s) => {
                self.sim = Some(s);
                self.dead = false;
                out.line(op, "ok".into());
            }
            Err(_) => {
                self.dead = true;
                out.line(op, "panic".into());
            }
        }
    }
    fn call<T>(&mut self, f: impl FnOnce(&mut lu::LeafUpdaterSim) -> T) -> Option<T> {
        if self.dead {
            return None;
        }
        let sim = self.sim.as_mut().unwrap();
        match catch_unwind(AssertUnwindSafe(|| f(sim))) {
            Ok(v) => Some(v),
            Err(_) => {
                self.dead = true;
                None
            }
        }
    }
    fn reset(&mut self, out: &mut Sink, base: Option<(Vec<Entry>, Key)>, cutoff: Option<Key>) {
        let op = format!("reset {} {}", base_str(&base), optkey_str(&cutoff));
        let r = self.call(|s| s.reset_base(base.as_ref().map(|(e, s)| (&e[..], *s)), cutoff));
        out.line(op, if r.is_some() { "ok".into() } else { "panic".into() });
    }
    fn rmcut(&mut self, out: &mut Sink) {
        let r = self.call(|s| s.remove_cutoff());
        out.line("rmcut".into(), if r.is_some() { "ok".into() } else { "panic".into() });
    }
    fn scope(&mut self, out: &mut Sink, key: &Key) -> Option<bool> {
        let r = self.call(|s| s.is_in_scope(key));
        out.line(
            format!("scope {}", hex(key)),
            match r {
                Some(b) => b.to_string(),
                None => "panic".into(),
            },
        );
        r
    }
    fn sep(&mut self, out: &mut Sink) -> Option<Key> {
        let r = self.call(|s| s.separator());
        out.line(
            "sep".into(),
            match r {
                Some(k) => hex(&k),
                None => "panic".into(),
            },
        );
        r
    }
    fn ingest(&mut self, out: &mut Sink, key: &Key, ch: &Option<(Vec<u8>, bool)>) -> Option<Vec<Vec<u8>>> {
        let (cell, o) = match ch {
            None => ("-".to_string(), 0),
            Some((v, o)) => (cell_str(v), if *o { 1 } else { 0 }),
        };
        let op = format!("ingest {} {} {}", hex(key), cell, o);
        let r = self.call(|s| {
            let log = s.ingest(*key, ch.as_ref().map(|c| c.0.clone()), ch.as_ref().map_or(false, |c| c.1));
            (log, s.state())
        });
        match r {
            None => {
                out.line(op, "panic".into());
                None
            }
            Some((log, st)) => {
                let l = if log.is_empty() {
                    "-".to_string()
                } else {
                    log.iter().map(|c| cell_str(c)).collect::<Vec<_>>().join(",")
                };
                out.line(op, format!("log={} {}", l, state_str(&st, true)));
                Some(log)
            }
        }
    }
    fn digest(&mut self, out: &mut Sink, fail_at: Option<usize>) -> Dig {
        let op = format!("digest {}", fail_at.map(|k| k.to_string()).unwrap_or("-".into()));
        let r = self.call(|s| {
            let o = s.digest(fail_at);
            (o, s.state())
        });
        match r {
            None => {
                out.line(op, "panic".into());
                Dig::Panic
            }
            Some(((leaves, Err(())), _)) => {
                out.line(op, format!("leaves={} res=err", leaves_str(&leaves)));
                self.dead = true;
                Dig::Err(leaves)
            }
            Some(((leaves, Ok(res)), st)) => {
                let r = match &res {
                    None => "fin".to_string(),
                    Some(c) => format!("merge:{}", hex(c)),
                };
                let line = format!("leaves={} res={} {}", leaves_str(&leaves), r, state_str(&st, false));
                if !leaves.is_empty() {
                    out.nontrivial(&line);
                }
                out.line(op, line);
                Dig::Ok(leaves, res)
            }
        }
    }
}

// ---------------------------------------------------------------------------------------------------------------
// generation

fn value(r: &mut Rng, len: usize) -> Vec<u8> {
    let a = r.next();
    let mut v = vec![(a >> 8) as u8; len];
    for (i, b) in a.to_le_bytes().iter().enumerate() {
        if i < len {
            v[i] = *b;
        }
    }
    if len > 0 {
        v[len - 1] = (a >> 16) as u8;
    }
    v
}

/// `style` 0 tiny, 1 small, 2 medium, 3 huge, 4 boundary sizes, 5 mixed with overflow cells, 6 anything
fn cell_of_style(r: &mut Rng, style: usize) -> (Vec<u8>, bool) {
    let len = match style {
        0 => r.below(9),
        1 => r.range(20, 100),
        2 => r.range(200, 600),
        3 => r.range(1200, MAXV),
        4 => *r.pick(&[0usize, 1, 2, MAXV - 1, MAXV, MAXV, 682, 683, 1013, 1330]),
        _ => 0,
    };
    match style {
        0 | 1 | 2 | 3 | 4 => (value(r, len), false),
        5 => {
            if r.chance(1, 2) {
                // overflow cell: 8 + 32 + 4k bytes, k = 1 … 15 page numbers
                {
                    let k = r.range(1, 15);
                    (value(r, 40 + 4 * k), true)
                }
            } else {
                let st = r.below(4);
                cell_of_style(r, st)
            }
        }
        _ => {
            let st = r.below(6);
            cell_of_style(r, st)
        }
    }
}

fn any_cell(r: &mut Rng) -> (Vec<u8>, bool) {
    let st = r.below(7);
    cell_of_style(r, st)
}

/// cells of one leaf: body size as close to `target` as the style permits, never above it (and never above BODY)
fn fill_leaf(r: &mut Rng, target: usize, style: usize, exact: bool) -> Vec<(Vec<u8>, bool)> {
    let target = target.min(BODY);
    let mut cells: Vec<(Vec<u8>, bool)> = Vec::new();
    let mut b = 0usize;
    loop {
        let (v, o) = cell_of_style(r, style);
        if b + 34 + v.len() > target {
            // close the leaf: a last inline cell that makes the body exactly `target` if there is room for one
            if exact && target >= b + 34 && target - b - 34 <= MAXV {
                cells.push((value(r, target - b - 34), false));
            }
            break;
        }
        b += 34 + v.len();
        cells.push((v, o));
        if cells.len() > 130 {
            break;
        }
    }
    cells
}

/// `n` ascending distinct keys: uniform keys, clusters under long common prefixes, keys differing in the last bits
fn sorted_keys(r: &mut Rng, n: usize) -> Vec<Key> {
    let mut keys: Vec<Key> = gen_keyset(r, n);
    let mut guard = 0;
    while keys.len() < n {
        guard += 1;
        let mut add: Vec<Key> = Vec::new();
        match r.below(4) {
            0 => add.push(r.bytes32()),
            1 if !keys.is_empty() => {
                // neighbours: the same key with the last byte(s) changed
                let mut k = *r.pick(&keys);
                for _ in 0..r.range(1, 6) {
                    let i = 31 - r.below(2);
                    k[i] = k[i].wrapping_add(1 + r.below(3) as u8);
                    add.push(k);
                }
            }
            2 => {
                let base = r.bytes32();
                let d = interesting_depth(r);
                for _ in 0..r.range(2, 12) {
                    add.push(with_prefix(r, &base, d));
                }
            }
            _ => {
                // a small first byte / a large first byte: keys near both ends of the key space
                let mut k = r.bytes32();
                k[0] = if r.chance(1, 2) { 0 } else { 0xff };
                if r.chance(1, 3) {
                    k[1] = k[0];
                }
                add.push(k);
            }
        }
        keys.extend(add);
        keys.sort();
        keys.dedup();
        if guard > 100_000 {
            break;
        }
    }
    // never the all-zero key (it is the separator of the first leaf) and never all ones (used as an outer cutoff)
    keys.retain(|k| *k != [0u8; 32] && *k != [0xffu8; 32]);
    if keys.len() < n {
        // (all-zero / all-one keys were dropped) top up with uniform keys
        while keys.len() < n {
            keys.push(r.bytes32());
            keys.sort();
            keys.dedup();
        }
    }
    // drop random keys rather than the largest ones, so that clusters at both ends survive
    while keys.len() > n {
        let i = r.below(keys.len());
        keys.remove(i);
    }
    keys
}

struct DbLeaf {
    sep: Key,
    ents: Vec<Entry>,
}

struct Scenario {
    db: Vec<DbLeaf>,
    /// cutoff of the last leaf (`Some`: the worker's leaves are followed by leaves it does not see)
    outer_cutoff: Option<Key>,
    changes: Vec<(Key, Option<(Vec<u8>, bool)>)>,
    desc: String,
}

fn gen_scenario(r: &mut Rng) -> Scenario {
    let n_leaves = *r.pick(&[0usize, 1, 1, 1, 2, 2, 3, 3, 4, 5, 6]);
    // ---- per leaf: the cells of the base and how its region is changed
    struct Plan {
        cells: Vec<(Vec<u8>, bool)>,
        mode: usize,
        absent: usize,
        style: usize,
    }
    let mut plans: Vec<Plan> = Vec::new();
    let scen = r.below(10);
    for i in 0..n_leaves {
        let target = match r.below(9) {
            0 => r.range(34, 400),
            1 => r.range(1500, MERGE - 1),
            2 => r.range(MERGE - 7, MERGE + 7),
            3 => r.range(2500, 3500),
            4 => r.range(4000, BODY),
            5 => BODY,
            6 => r.range(MERGE, BODY),
            7 => r.range(34, MERGE),
            _ => r.range(34, BODY),
        };
        let style = r.below(7);
        let exact = r.chance(2, 3);
        let cells = fill_leaf(r, target, style, exact);
        // change mode of the region: 0 untouched, 1 sparse, 2 delete all, 3 delete most, 4 update all, 5 insert many,
        // 6 bulk insert, 7 mixed, 8 only the first / last key, 9 delete a prefix / suffix
        let mode = match scen {
            0 => {
                // underflow chain: the first leaf loses almost everything, the followers are small
                if i == 0 {
                    3
                } else {
                    *r.pick(&[0usize, 0, 1, 3, 2])
                }
            }
            1 => 6,
            2 => *r.pick(&[2usize, 3, 2, 0]),
            _ => r.below(10),
        };
        let absent = match mode {
            5 => r.range(3, 40),
            6 => r.range(20, 260),
            0 | 2 => r.below(3),
            _ => r.below(12),
        };
        let absent = if cells.is_empty() && absent == 0 { 1 } else { absent };
        plans.push(Plan { cells, mode, absent, style });
    }
    if scen == 0 {
        // followers of an underflowing leaf: small leaves so that several merges chain
        for p in plans.iter_mut().skip(1) {
            if r.chance(2, 3) {
                let t = r.range(34, 900);
                p.cells = fill_leaf(r, t, p.style, false);
                if p.cells.is_empty() && p.absent == 0 {
                    p.absent = 1;
                }
            }
        }
    }
    let tail_absent = if n_leaves == 0 { r.range(1, 300) } else { r.below(8) };
    let total: usize = plans.iter().map(|p| p.cells.len() + p.absent).sum::<usize>() + tail_absent;
    let keys = sorted_keys(r, total + 2);
    let mut ki = 0usize;
    let mut db: Vec<DbLeaf> = Vec::new();
    let mut changes: Vec<(Key, Option<(Vec<u8>, bool)>)> = Vec::new();
    let mut prev_last: Option<Key> = None; // the last universe key in front of the current leaf
    let mid_db = r.chance(1, 4);
    let first_style = r.below(7);
    for (i, p) in plans.iter().enumerate() {
        let m = p.cells.len() + p.absent;
        let region: Vec<Key> = keys[ki..(ki + m).min(keys.len())].to_vec();
        ki += region.len();
        // which keys of the region are base entries
        let mut is_base = vec![false; region.len()];
        let mut chosen = 0;
        let want = p.cells.len().min(region.len());
        while chosen < want {
            let j = r.below(region.len());
            if !is_base[j] {
                is_base[j] = true;
                chosen += 1;
            }
        }
        let mut ents: Vec<Entry> = Vec::new();
        let mut ci = 0;
        for (j, k) in region.iter().enumerate() {
            if is_base[j] {
                ents.push((*k, p.cells[ci].0.clone(), p.cells[ci].1));
                ci += 1;
            }
        }
        // the separator: anything above the last key in front and at most the first key of the region
        let sep: Key = if i == 0 && !mid_db {
            [0u8; 32]
        } else {
            let first = region.first().cloned().unwrap_or_else(|| keys[ki.min(keys.len() - 1)]);
            match (prev_last, r.below(3)) {
                (Some(pl), 0) if pl < first => nomt::verif_api::bit_ops::separate(&pl, &first),
                (None, 0) => {
                    let mut s = first;
                    s[31] = 0;
                    s[30] = 0;
                    if s == [0u8; 32] {
                        first
                    } else {
                        s
                    }
                }
                _ => first,
            }
        };
        // the changes of the region
        let nb = ents.len();
        let mut bi = 0usize;
        for (j, k) in region.iter().enumerate() {
            let base = is_base[j];
            if base {
                bi += 1;
            }
            let touch: bool = match p.mode {
                0 => false,
                1 => r.chance(1, 12),
                2 => base || r.chance(1, 4),
                3 => (base && (nb <= 2 || r.chance(9, 10))) || (!base && r.chance(1, 6)),
                4 => base,
                5 | 6 => !base || r.chance(1, 10),
                7 => r.chance(1, 2),
                8 => (base && (bi == 1 || bi == nb)) || j == 0 || j + 1 == region.len(),
                _ => {
                    // a prefix or a suffix of the leaf goes away
                    let cut = nb / 2;
                    base && (if i % 2 == 0 { bi <= cut } else { bi > cut })
                }
            };
            if !touch {
                continue;
            }
            let ch: Option<(Vec<u8>, bool)> = if base {
                match p.mode {
                    2 | 3 | 9 => None,
                    4 => Some(any_cell(r)),
                    _ => {
                        if r.chance(1, 2) {
                            None
                        } else {
                            Some(any_cell(r))
                        }
                    }
                }
            } else {
                match p.mode {
                    2 | 3 => {
                        if r.chance(1, 2) {
                            None // deleting a key that is not there
                        } else {
                            Some(cell_of_style(r, 0))
                        }
                    }
                    6 => Some(if r.chance(1, 8) { any_cell(r) } else { cell_of_style(r, p.style) }),
                    _ => {
                        if r.chance(1, 8) {
                            None
                        } else {
                            Some(any_cell(r))
                        }
                    }
                }
            };
            changes.push((*k, ch));
        }
        if let Some(l) = region.last() {
            prev_last = Some(*l);
        }
        db.push(DbLeaf { sep, ents });
    }
    for w in db.windows(2) {
        assert!(w[0].sep < w[1].sep, "harness: separators must ascend");
    }
    let ok = true;
    // keys behind the last leaf: inserts at the right end (only into the rightmost leaf of the tree or an empty tree)
    let outer_cutoff: Option<Key> = if mid_db && !db.is_empty() {
        // the next universe key is the separator of a leaf this worker does not see
        Some(if ki < keys.len() && ok { keys[ki] } else { [0xffu8; 32] })
    } else {
        None
    };
    if outer_cutoff.is_none() && ok {
        for k in keys[ki.min(keys.len())..].iter().take(tail_absent) {
            changes.push((*k, Some(cell_of_style(r, first_style))));
        }
    }
    let desc = format!(
        "leaves={} scen={} mid_db={} changes={} modes={:?}",
        db.len(),
        scen,
        mid_db,
        changes.len(),
        plans.iter().map(|p| p.mode).collect::<Vec<_>>()
    );
    Scenario { db, outer_cutoff, changes, desc }
}

/// value lengths of cells whose bodies (34 + length each) sum to exactly `total` (`total` = 0 or ≥ 34)
fn cells_summing(r: &mut Rng, total: usize, big: u8) -> Vec<usize> {
    let big = if big == 2 { r.chance(1, 2) } else { big == 1 };
    let mut rem = total;
    let mut v = Vec::new();
    while rem > 0 {
        assert!(rem >= 34);
        let maxb = (34 + MAXV).min(rem);
        let mut b = if big { r.range(maxb.saturating_sub(200).max(34), maxb) } else { r.range(34, maxb) };
        // never leave a remainder that no cell can make up
        if rem - b > 0 && rem - b < 34 {
            b = if rem <= 34 + MAXV { rem } else { rem - 34 };
        }
        v.push(b - 34);
        rem -= b;
    }
    v
}

/// scenarios aimed at the comparisons of the updater: an item that takes a leaf from below the target to exactly /
/// just over LEAF_NODE_BODY_SIZE (kept cell and inserted cell), totals at the split / bulk-split thresholds, a
/// remainder at the merge threshold
fn gen_boundary(r: &mut Rng) -> Scenario {
    let delta: isize = *r.pick(&[-2isize, -1, -1, 0, 0, 0, 1, 1, 2, 17]);
    let mid_db = r.chance(1, 5);
    let kind = r.below(4);
    // (is_base, change) per key, in key order; `None` change = untouched
    let mut items: Vec<(Option<(Vec<u8>, bool)>, Option<Option<(Vec<u8>, bool)>>)> = Vec::new();
    let mut second_leaf: Vec<usize> = Vec::new();
    let desc;
    match kind {
        0 | 1 => {
            // front inserts g0, kept a, then b (kept / inserted) with g0 + a + b = BODY + delta, and a total that puts
            // the target above g0 + a (so that b is the item that crosses the target)
            // S = g0 + a + b is either BODY + delta (b takes the leaf to the limit) or target + delta (b takes it to the target)
            let at_target = r.chance(1, 3);
            let (sum, t): (usize, usize) = if !at_target {
                ((BODY as isize + delta) as usize, 0)
            } else if r.chance(1, 3) {
                ((3070 + delta) as usize, r.range(7370, 9000))
            } else {
                let tg = r.range(2100, 3600);
                ((tg as isize + delta) as usize, 2 * tg + r.below(2))
            };
            let bb = if !at_target && r.chance(2, 3) { r.range(1000, 34 + MAXV) } else { r.range(600, 34 + MAXV) };
            let mut ab = r.range(34, 400);
            let mut g0 = sum - ab - bb;
            if g0 < 34 {
                ab += g0;
                g0 = 0;
            }
            let pre = g0 + ab;
            let t = if at_target {
                t
            } else if pre < 3070 && r.chance(1, 2) {
                r.range(7370, 9000)
            } else {
                r.range(2 * pre + 2, (2 * pre + 1500).min(7369))
            };
            let rest = t - sum;
            if g0 > 0 {
                for l in cells_summing(r, g0, 1) {
                    items.push((None, Some(Some((value(r, l), false)))));
                }
            }
            items.push((Some((value(r, ab - 34), false)), None));
            if kind == 0 {
                items.push((Some((value(r, bb - 34), false)), None));
            } else {
                items.push((None, Some(Some((value(r, bb - 34), false)))));
            }
            // the rest: more base cells (the base leaf holds at most BODY) and inserts behind
            let base_so_far = ab + if kind == 0 { bb } else { 0 };
            let mut base_rest = r.range(0, (BODY - base_so_far).min(rest));
            if base_rest < 34 || (rest - base_rest > 0 && rest - base_rest < 34) {
                base_rest = 0;
            }
            if base_rest >= 34 {
                for l in cells_summing(r, base_rest, 2) {
                    items.push((Some((value(r, l), false)), None));
                }
            }
            let tail = rest - base_rest;
            if tail >= 34 {
                for l in cells_summing(r, tail, 2) {
                    items.push((None, Some(Some((value(r, l), false)))));
                }
            }
            desc = format!("boundary jump kind={kind} delta={delta} at_target={at_target}");
        }
        2 => {
            // totals at the thresholds
            let t = (*r.pick(&[BODY, BODY + 1, 7369, 7369, 7370, 7370, 2 * BODY + 1, MERGE, MERGE + 1]) as isize + delta) as usize;
            let base_body = r.range(34, BODY.min(t.saturating_sub(34)).max(34));
            let base_body = if t - base_body < 34 && t != base_body { t - 34 } else { base_body };
            let mut base: Vec<usize> = cells_summing(r, base_body.min(BODY), 2);
            let mut ins: Vec<usize> = if t > base_body { cells_summing(r, t - base_body.min(BODY), 2) } else { vec![] };
            // interleave at random
            while !base.is_empty() || !ins.is_empty() {
                let take_base = !base.is_empty() && (ins.is_empty() || r.chance(base.len(), base.len() + ins.len()));
                if take_base {
                    let l = base.pop().unwrap();
                    items.push((Some((value(r, l), false)), None));
                } else {
                    let l = ins.pop().unwrap();
                    items.push((None, Some(Some((value(r, l), false)))));
                }
            }
            desc = format!("boundary total={t}");
        }
        _ => {
            // what is left of the first leaf is at the merge threshold; one or two followers
            let k = (MERGE as isize + delta.min(3)) as usize;
            let mut kept: Vec<usize> = cells_summing(r, k, 2);
            let gone_total = r.range(34, BODY - k);
            let mut gone: Vec<usize> = cells_summing(r, gone_total, 2);
            while !kept.is_empty() || !gone.is_empty() {
                let take_kept = !kept.is_empty() && (gone.is_empty() || r.chance(kept.len(), kept.len() + gone.len()));
                if take_kept {
                    let l = kept.pop().unwrap();
                    items.push((Some((value(r, l), false)), None));
                } else {
                    let l = gone.pop().unwrap();
                    items.push((Some((value(r, l), r.chance(1, 4))), Some(None)));
                }
            }
            let second_total = r.range(34, BODY);
            second_leaf = cells_summing(r, second_total, 2);
            desc = format!("boundary merge remainder={k}");
        }
    }
    let keys = sorted_keys(r, items.len() + second_leaf.len() + 1);
    let mut ents: Vec<Entry> = Vec::new();
    let mut changes = Vec::new();
    for (i, (b, ch)) in items.iter().enumerate() {
        if let Some((v, o)) = b {
            ents.push((keys[i], v.clone(), *o));
        }
        if let Some(c) = ch {
            changes.push((keys[i], c.clone()));
        }
    }
    let mut db = vec![DbLeaf { sep: [0u8; 32], ents }];
    let mut ki = items.len();
    if !second_leaf.is_empty() {
        let ents2: Vec<Entry> = second_leaf.iter().map(|l| { let e = (keys[ki], value(r, *l), false); ki += 1; e }).collect();
        db.push(DbLeaf { sep: ents2[0].0, ents: ents2 });
    }
    assert!(ki < keys.len());
    let outer_cutoff = if mid_db { Some(keys[ki]) } else { None };
    if changes.is_empty() {
        // an empty change list never reaches the updater: touch the first key without changing it
        let e = db[0].ents[0].clone();
        changes.push((e.0, Some((e.1, e.2))));
    }
    Scenario { db, outer_cutoff, changes, desc }
}

// ---------------------------------------------------------------------------------------------------------------
// the run_worker loop

enum Out {
    Old(usize),
    New(lu::Produced),
}

/// the leaf covering `key` among the leaves right of `cur`
fn covering(db: &[DbLeaf], from: usize, key: &Key) -> Option<usize> {
    if from >= db.len() {
        return None;
    }
    let mut i = from;
    while i + 1 < db.len() && db[i + 1].sep <= *key {
        i += 1;
    }
    Some(i)
}

fn run_scenario(sc: &Scenario, case: usize, r: &mut Rng, out: &mut Sink) {
    let db = &sc.db;
    let cutoff_of = |i: usize| -> Option<Key> {
        if i + 1 < db.len() {
            Some(db[i + 1].sep)
        } else {
            sc.outer_cutoff
        }
    };
    let mut d = Drv { sim: None, dead: false };
    let mut outl: Vec<Out> = Vec::new();
    let mut next_leaf = 0usize; // the first leaf right of the current base
    let mut log_all: Vec<Vec<u8>> = Vec::new();
    let mut merges_in_a_row = 0u64;
    d.new_(out, None, None);
    // point the updater at the leaf covering `key`; the leaves in front of it stay as they are
    macro_rules! reset_to {
        ($key:expr) => {{
            match covering(db, next_leaf, $key) {
                Some(i) => {
                    for j in next_leaf..i {
                        outl.push(Out::Old(j));
                    }
                    d.reset(out, Some((db[i].ents.clone(), db[i].sep)), cutoff_of(i));
                    next_leaf = i + 1;
                    true
                }
                None => false,
            }
        }};
    }
    macro_rules! handle_digest {
        ($fail:expr) => {{
            if r.chance(1, 3) {
                d.sep(out);
            }
            match d.digest(out, $fail) {
                Dig::Panic => {
                    out.fail(format!("C01 LeafUpdater::digest panicked (case {case}: {})", sc.desc));
                    return;
                }
                Dig::Err(leaves) => {
                    out.count("digest_io_error");
                    let _ = leaves;
                    return;
                }
                Dig::Ok(leaves, res) => {
                    out.count(match leaves.len() {
                        0 => "digest_0_leaves",
                        1 => "digest_1_leaf",
                        2 => "digest_2_leaves",
                        3 => "digest_3_leaves",
                        _ => "digest_4plus_leaves",
                    });
                    for l in leaves {
                        outl.push(Out::New(l));
                    }
                    res
                }
            }
        }};
    }
    if let Some((k0, _)) = sc.changes.first() {
        reset_to!(k0);
    }
    // a refused leaf write ends a few cases early (the error path of `digest`)
    let fail_case = r.chance(1, 25);
    let mut digests = 0usize;
    for (key, ch) in &sc.changes {
        loop {
            match d.scope(out, key) {
                None => {
                    out.fail(format!("C01 LeafUpdater::is_in_scope panicked (case {case})"));
                    return;
                }
                Some(true) => break,
                Some(false) => {}
            }
            digests += 1;
            let fail = if fail_case && digests == 2 { Some(r.below(2)) } else { None };
            let res = handle_digest!(fail);
            let k = match res {
                Some(cutoff) => {
                    merges_in_a_row += 1;
                    out.count("needs_merge");
                    cutoff
                }
                None => {
                    if merges_in_a_row > 0 {
                        out.count(&format!("merge_chain_{}", merges_in_a_row.min(5)));
                    }
                    merges_in_a_row = 0;
                    *key
                }
            };
            if !reset_to!(&k) {
                out.fail(format!("harness: no leaf covers the key after a digest (case {case}: {})", sc.desc));
                return;
            }
        }
        out.count(match ch {
            None => "ingest_delete",
            Some((_, true)) => "ingest_overflow_cell",
            Some(_) => "ingest_inline",
        });
        match d.ingest(out, key, ch) {
            None => {
                out.fail(format!("C01 LeafUpdater::ingest panicked (case {case}: {})", sc.desc));
                return;
            }
            Some(log) => log_all.extend(log),
        }
    }
    loop {
        let res = handle_digest!(None);
        match res {
            None => break,
            Some(cutoff) => {
                merges_in_a_row += 1;
                out.count("needs_merge");
                if !reset_to!(&cutoff) {
                    // nothing to the right that this worker may take: the rightmost leaf may stay under-full
                    out.count("remove_cutoff");
                    d.rmcut(out);
                }
            }
        }
    }
    if merges_in_a_row > 0 {
        out.count(&format!("merge_chain_{}", merges_in_a_row.min(5)));
    }
    for j in next_leaf..db.len() {
        outl.push(Out::Old(j));
    }

    // ---- oracles (independent of the model)
    let mut map: BTreeMap<Key, (Vec<u8>, bool)> = BTreeMap::new();
    let mut expect_log: Vec<Vec<u8>> = Vec::new();
    for l in db {
        for (k, v, o) in &l.ents {
            map.insert(*k, (v.clone(), *o));
        }
    }
    for (k, ch) in &sc.changes {
        if let Some((v, true)) = map.get(k) {
            expect_log.push(v.clone());
        }
        match ch {
            None => {
                map.remove(k);
            }
            Some((v, o)) => {
                map.insert(*k, (v.clone(), *o));
            }
        }
    }
    let mut flat: Vec<Entry> = Vec::new();
    for (idx, o) in outl.iter().enumerate() {
        let last = idx + 1 == outl.len();
        let next_sep: Option<Key> = outl.get(idx + 1).map(|n| match n {
            Out::Old(j) => db[*j].sep,
            Out::New(l) => l.0,
        });
        let (sep, ents, is_new): (Key, &Vec<Entry>, bool) = match o {
            Out::Old(j) => (db[*j].sep, &db[*j].ents, false),
            Out::New(l) => (l.0, &l.1, true),
        };
        if is_new {
            let b = body(ents);
            out.add("new_leaf_bytes", b as u64);
            out.count("new_leaves");
            if ents.is_empty() {
                out.fail(format!("C16 LeafUpdater produced an empty leaf (case {case}: {})", sc.desc));
            }
            if b > BODY {
                out.fail(format!("C16 LeafUpdater produced an over-full leaf: body {b} > {BODY} (case {case}: {})", sc.desc));
            }
            if b < MERGE && !last {
                out.fail(format!(
                    "C16 LeafUpdater produced a leaf under the merge threshold that is not the rightmost one: body {b} (case {case}: {})",
                    sc.desc
                ));
            }
            if b < MERGE && last {
                out.count("underfull_rightmost");
            }
            if let Out::New(l) = o {
                // the cutoff handed to `handle_new_leaf`: an upper bound of the leaf that does not reach into the next one;
                // `None` only for the rightmost leaf
                match l.2 {
                    Some(c) => {
                        if ents.last().map_or(false, |e| e.0 >= c) || next_sep.map_or(false, |ns| c > ns) {
                            out.fail(format!(
                                "C16 cutoff handed to handle_new_leaf is not a bound between the leaf and the next one (case {case}: {})",
                                sc.desc
                            ));
                        }
                    }
                    None => {
                        if !last {
                            out.fail(format!("C16 a new leaf without cutoff that is not the rightmost one (case {case}: {})", sc.desc));
                        }
                    }
                }
            }
        }
        if let Some(f) = ents.first() {
            if sep > f.0 {
                out.fail(format!("C16 separator above the first key of its leaf (case {case}: {})", sc.desc));
            }
        }
        if let Some(p) = flat.last() {
            if is_new && p.0 >= sep {
                out.fail(format!("C16 separator not above the last key in front of the leaf (case {case}: {})", sc.desc));
            }
        }
        if let (Some(ns), Some(l)) = (next_sep, ents.last()) {
            if l.0 >= ns {
                out.fail(format!("C16 a key of a leaf is not below the next separator (case {case}: {})", sc.desc));
            }
        }
        flat.extend(ents.iter().cloned());
    }
    let want: Vec<Entry> = map.iter().map(|(k, (v, o))| (*k, v.clone(), *o)).collect();
    if flat != want {
        let pos = flat.iter().zip(want.iter()).position(|(a, b)| a != b).unwrap_or(flat.len().min(want.len()));
        out.fail(format!(
            "C01 leaves after the update differ from the changes applied to the old leaves: {} entries vs {}, first difference at {pos} (case {case}: {})",
            flat.len(),
            want.len(),
            sc.desc
        ));
    }
    if log_all != expect_log {
        out.fail(format!(
            "C19 with_deleted_overflow called for {} cells, {} overflow values were deleted or replaced (case {case}: {})",
            log_all.len(),
            expect_log.len(),
            sc.desc
        ));
    }
    out.add("overflow_released", log_all.len() as u64);
}

/// directed small scenarios: the F10 shape (an overflow value as first touched entry of its leaf, directly after the
/// previously touched key, as the last key), an empty tree, a leaf that empties completely
fn directed(out: &mut Sink, r: &mut Rng) -> Vec<Scenario> {
    let k = |x: u8| -> Key { [x; 32] };
    let ov = |r: &mut Rng| (value(r, 44), true);
    let mut v = Vec::new();
    // F10: first entry is an overflow value and it is deleted / replaced
    for del in [true, false] {
        let ents = vec![(k(1), ov(r).0, true), (k(2), value(r, 10), false), (k(3), ov(r).0, true), (k(4), ov(r).0, true)];
        let ch = |r: &mut Rng| if del { None } else { Some((value(r, 5), false)) };
        v.push(Scenario {
            db: vec![DbLeaf { sep: [0; 32], ents }],
            outer_cutoff: None,
            changes: vec![(k(1), ch(r)), (k(3), ch(r)), (k(4), ch(r))],
            desc: format!("directed F10 del={del}"),
        });
    }
    // empty tree, a handful of inserts; an empty change list never reaches the updater
    v.push(Scenario {
        db: vec![],
        outer_cutoff: None,
        changes: vec![(k(7), Some((value(r, MAXV), false))), (k(9), Some((value(r, 0), false)))],
        desc: "directed empty tree".into(),
    });
    // every entry of three leaves goes away
    let mk = |r: &mut Rng, a: u8| DbLeaf {
        sep: if a == 0x10 { [0; 32] } else { k(a) },
        ents: (0..3).map(|i| (k(a + i), value(r, 700), false)).collect(),
    };
    let db = vec![mk(r, 0x10), mk(r, 0x20), mk(r, 0x30)];
    let changes = db.iter().flat_map(|l| l.ents.iter().map(|e| (e.0, None))).collect();
    v.push(Scenario { db, outer_cutoff: None, changes, desc: "directed delete everything".into() });
    let _ = out;
    v
}

#[path = "pushchunk_leaf.rs"]
pub mod pushchunk;
#[path = "pushchunk_lb.rs"]
pub mod pushchunk_lb;

pub fn run(seed: u64, cases: usize, out: &mut Sink) {
    let mut rng = Rng::new(seed ^ 0x1EAF_0D);
    let mut r0 = rng.fork();
    for (i, sc) in directed(out, &mut r0).iter().enumerate() {
        out.mark_case(format!("directed {i}: {}", sc.desc));
        run_scenario(sc, i, &mut r0, out);
    }
    for case in 0..cases {
        let mut r = rng.fork();
        let sc = if case % 3 == 2 { gen_boundary(&mut r) } else { gen_scenario(&mut r) };
        out.mark_case(format!("case {case}: {}", sc.desc));
        out.count(&format!("db_leaves_{}", sc.db.len().min(6)));
        out.add("changes", sc.changes.len() as u64);
        run_scenario(&sc, case, &mut r, out);
    }
}
