//! C11 / C05: the real `overlay.rs` (`LiveOverlay::new / value / value_iter / page / finish`, `Index::prune_below`,
//! status transitions) on overlay chains built from explicit change maps, and the real `BeatreeIterator`
//! (staging maps merged with on-disk leaves) on hand-built leaves, through `nomt::verif_api` (cfg nomt_verif).
//! Every step is one protocol line for the Lean driver's `ovl` mode (mirror of `Index` / `LiveOverlay` /
//! `BeatreeIterator`) and is checked against harness-side oracles that do not depend on the model:
//!   * C11 value: `value(k)` = the youngest change along the validated chain (BTreeMap fold), for EVERY key of the universe;
//!   * C05 value_iter: `value_iter(a, b)` = the folded BTreeMap's `range(a..b)` (half-open, ascending, each key once);
//!   * C11 view: `value(k)` falling through to the committed map = the overlay's intended state (parent state + changes),
//!     whichever ancestors have been committed / pruned meanwhile;
//!   * C11 new: an accepted ancestor list is a prefix of the parent's creation chain reaching an overlay whose parent
//!     is committed (or has none); the refusals are the documented ones;
//!   * C11 index: after `finish` the index holds exactly the keys changed along the creation chain, each with the
//!     sequence number of its youngest changer; the log is ascending;
//!   * C05 iterator: the items of `BeatreeIterator` = disk ⊕ secondary ⊕ primary restricted to the range;
//!   * C05 / C11 seek (every 8th case, a real store under /dev/shm): a path proof of every key of the universe from a
//!     session on a chain of real overlays = the reference proof of committed map + changes; the terminal leaf vs the
//!     Lean `leafFetch`, the nodes at the page boundaries of the path vs the Lean `nodeAt` over `leavesMerge`
//!     (disk entries of the range, REAL `value_iter` of the range).
use crate::util::*;
use nomt::verif_api::{
    beatree_run_iterator, overlay_index, overlay_mark_committed, overlay_page_index, overlay_parent_status, InvalidAncestors, LiveSim, Overlay,
};
use nomt_core::page_id::{ChildPageIndex, PageId, ROOT_PAGE_ID};
use std::collections::{BTreeMap, BTreeSet};

type Change = Option<Vec<u8>>;

fn succ(k: &Key) -> Key {
    let mut r = *k;
    for i in (0..32).rev() {
        if r[i] == 0xff {
            r[i] = 0;
        } else {
            r[i] += 1;
            return r;
        }
    }
    [0xff; 32]
}
fn pred(k: &Key) -> Key {
    let mut r = *k;
    for i in (0..32).rev() {
        if r[i] == 0 {
            r[i] = 0xff;
        } else {
            r[i] -= 1;
            return r;
        }
    }
    [0; 32]
}

fn show_change(c: &Change) -> String {
    match c {
        Some(v) => hex(v),
        None => "-".into(),
    }
}
fn show_writes(ws: &[(Key, Change)]) -> String {
    if ws.is_empty() {
        return "-".into();
    }
    ws.iter().map(|(k, c)| format!("{}:{}", hex(k), show_change(c))).collect::<Vec<_>>().join(",")
}
fn show_kv(ws: &[(Key, Vec<u8>)]) -> String {
    if ws.is_empty() {
        return "-".into();
    }
    ws.iter().map(|(k, v)| format!("{}:{}", hex(k), hex(v))).collect::<Vec<_>>().join(",")
}
fn show_idx(idx: &[(Key, u64)]) -> String {
    if idx.is_empty() {
        return "-".into();
    }
    idx.iter().map(|(k, s)| format!("{}:{}", hex(k), s)).collect::<Vec<_>>().join(",")
}
fn show_log(log: &[(u64, Key)]) -> String {
    if log.is_empty() {
        return "-".into();
    }
    let mut l = log.to_vec();
    l.sort();
    l.iter().map(|(s, k)| format!("{}:{}", s, hex(k))).collect::<Vec<_>>().join(",")
}

/// a dense universe: keys that are neighbours as 256-bit numbers, keys sharing long prefixes, the extremes
fn gen_universe(r: &mut Rng) -> Vec<Key> {
    let n = r.range(4, 14);
    let mut set: BTreeSet<Key> = BTreeSet::new();
    let base = r.bytes32();
    while set.len() < n {
        let k = match r.below(8) {
            0 => r.bytes32(),
            1 => [0u8; 32],
            2 => [0xffu8; 32],
            3 if !set.is_empty() => {
                let v: Vec<Key> = set.iter().cloned().collect();
                succ(r.pick(&v))
            }
            4 if !set.is_empty() => {
                let v: Vec<Key> = set.iter().cloned().collect();
                pred(r.pick(&v))
            }
            5 => {
                // P·1·0…0 / P·0·1…1 boundary pair
                let d = interesting_depth(r).min(250);
                let mut lo = base;
                let mut hi = base;
                set_bit(&mut lo, d, false);
                set_bit(&mut hi, d, true);
                for i in d + 1..256 {
                    set_bit(&mut lo, i, true);
                    set_bit(&mut hi, i, false);
                }
                if r.chance(1, 2) {
                    set.insert(lo);
                }
                hi
            }
            _ => {
                let d = interesting_depth(r);
                with_prefix(r, &base, d)
            }
        };
        set.insert(k);
    }
    set.into_iter().collect()
}

fn gen_pages(r: &mut Rng) -> Vec<PageId> {
    let mut v = vec![ROOT_PAGE_ID];
    for _ in 0..r.range(1, 4) {
        let mut p = ROOT_PAGE_ID;
        for _ in 0..r.range(1, 3) {
            p = p.child_page_id(ChildPageIndex::new(r.below(4) as u8).unwrap()).unwrap();
        }
        if !v.contains(&p) {
            v.push(p);
        }
    }
    v
}

struct OvInfo {
    handle: Option<Overlay>,
    seqn: u64,
    parent: Option<usize>,
    /// the creation chain beyond the overlay itself: parent, then the validated ancestors
    chain: Vec<usize>,
    changes: BTreeMap<Key, Change>,
    pages: BTreeMap<[u8; 32], u8>,
    /// the state this overlay stands for: parent's state (or the committed map when it has none) + its changes
    full_view: BTreeMap<Key, Vec<u8>>,
    /// number of commits when the root ancestor of the lineage was created
    base_version: usize,
    committed: bool,
}

struct LiveInfo {
    live: LiveSim,
    /// parent + validated ancestors
    chain: Vec<usize>,
}

struct World {
    ovs: Vec<OvInfo>,
    lives: BTreeMap<usize, LiveInfo>,
    next_live: usize,
    disk: BTreeMap<Key, Vec<u8>>,
    commits: usize,
}

impl World {
    fn alive(&self, a: usize) -> bool {
        self.ovs[a].handle.is_some() || self.lives.values().any(|l| l.chain.contains(&a))
    }
    fn lineage(&self, mut o: usize) -> Vec<usize> {
        let mut v = vec![o];
        while let Some(p) = self.ovs[o].parent {
            v.push(p);
            o = p;
        }
        v
    }
}

fn random_value(r: &mut Rng) -> Vec<u8> {
    let n = *r.pick(&[1usize, 1, 2, 3, 8]);
    (0..n).map(|_| r.below(256) as u8).collect()
}

pub fn run(seed: u64, cases: usize, out: &mut Sink) {
    let mut rng = Rng::new(seed ^ 0x0E71A7);
    for case in 0..cases {
        let mut r = rng.fork();
        if case % 4 == 3 {
            run_iterator_case(case, &mut r, out);
        } else if case % 8 == 6 {
            run_seek_case(seed, case, &mut r, out);
        } else {
            run_chain_case(case, &mut r, out);
        }
    }
}

fn run_chain_case(case: usize, r: &mut Rng, out: &mut Sink) {
    let universe = gen_universe(r);
    let pages = gen_pages(r);
    let orderly = r.chance(2, 3); // commits only oldest-first along one lineage: the view oracle applies
    let max_ovs = *r.pick(&[0usize, 1, 2, 3, 4, 5, 6, 8, 8, 8, 12]);
    let nsteps = r.range(3, 12 + 3 * max_ovs);
    out.mark_case(format!("case {case} chain universe={} pages={} orderly={orderly} max_overlays={max_ovs}", universe.len(), pages.len()));
    out.line("reset".into(), "ok".into());
    let mut w = World { ovs: vec![], lives: BTreeMap::new(), next_live: 0, disk: BTreeMap::new(), commits: 0 };
    // a committed map to fall through to
    for k in &universe {
        if r.chance(1, 3) {
            w.disk.insert(*k, random_value(r));
        }
    }
    let mut tip: Option<usize> = None;
    for _step in 0..nsteps {
        match r.below(16) {
            0..=10 => {
                // ---- a session: LiveOverlay::new, lookups, maybe finish
                let parent = if w.ovs.is_empty() || r.chance(1, 12) {
                    None
                } else if r.chance(3, 4) && tip.is_some() {
                    tip
                } else {
                    Some(r.below(w.ovs.len()))
                };
                let parent = parent.filter(|&p| w.ovs[p].handle.is_some());
                let (ids, flavour) = gen_ancestor_list(r, &w, parent);
                let Some(lid) = do_live(r, &mut w, &ids, flavour, out) else { continue };
                do_lookups(r, &w, lid, &universe, &pages, orderly, out);
                let nfin = if w.ovs.len() >= max_ovs { 0 } else { *r.pick(&[0usize, 1, 1, 1, 1, 2]) };
                for _ in 0..nfin {
                    if w.ovs.len() >= max_ovs {
                        break;
                    }
                    let oid = do_finish(r, &mut w, lid, &universe, &pages, out);
                    if parent == tip || tip.is_none() {
                        tip = Some(oid);
                    }
                }
                if r.chance(2, 3) {
                    w.lives.remove(&lid);
                    out.line(format!("dropl {lid}"), "ok".into());
                }
            }
            11 | 12 => {
                // ---- commit: the oldest uncommitted overlay of the tip's lineage (orderly), or any held overlay
                let cand: Option<usize> = if orderly || r.chance(3, 4) {
                    tip.and_then(|t| w.lineage(t).into_iter().rev().find(|&o| !w.ovs[o].committed))
                } else if !w.ovs.is_empty() {
                    Some(r.below(w.ovs.len()))
                } else {
                    None
                };
                if let Some(o) = cand {
                    if w.ovs[o].committed {
                        continue;
                    }
                    let Some(h) = w.ovs[o].handle.as_ref() else { continue };
                    overlay_mark_committed(h);
                    w.ovs[o].committed = true;
                    for (k, c) in w.ovs[o].changes.clone() {
                        match c {
                            Some(v) => {
                                w.disk.insert(k, v);
                            }
                            None => {
                                w.disk.remove(&k);
                            }
                        }
                    }
                    w.commits += 1;
                    out.line(format!("commit {o}"), "ok".into());
                    out.count("commits");
                }
            }
            13 | 14 => {
                // ---- drop a handle (committed ones preferably: that is what `Overlay::commit` does)
                let held: Vec<usize> = (0..w.ovs.len()).filter(|&o| w.ovs[o].handle.is_some()).collect();
                if held.is_empty() {
                    continue;
                }
                let committed: Vec<usize> = held.iter().cloned().filter(|&o| w.ovs[o].committed).collect();
                let o = if !committed.is_empty() && r.chance(3, 4) { *r.pick(&committed) } else { *r.pick(&held) };
                if orderly && !w.ovs[o].committed && r.chance(2, 3) {
                    continue;
                }
                w.ovs[o].handle = None;
                out.line(format!("drop {o}"), "ok".into());
                out.count("drops");
                if tip == Some(o) {
                    tip = None;
                }
            }
            _ => {
                // ---- parent status as a child sees it
                let held: Vec<usize> = (0..w.ovs.len()).filter(|&o| w.ovs[o].handle.is_some()).collect();
                if held.is_empty() {
                    continue;
                }
                let o = *r.pick(&held);
                let st = overlay_parent_status(w.ovs[o].handle.as_ref().unwrap());
                out.line(format!("pstatus {o}"), match st { None => "none".into(), Some(s) => s.to_string() });
                let want = w.ovs[o].parent.map(|p| if w.ovs[p].committed { 2 } else if w.alive(p) { 0 } else { 1 });
                if st != want {
                    out.fail(format!("C11 overlay {o} sees parent status {st:?}, expected {want:?} (case {case})"));
                }
            }
        }
    }
}

#[derive(Clone, Copy, Debug, PartialEq)]
enum Flavour {
    Exact,
    Short,
    Long,
    Wrong,
    Reordered,
}

/// the ancestor list a user hands to `SessionParams::overlay`: mostly the parent's live chain, sometimes too short,
/// too long, with a foreign overlay or reordered — only handles the user still holds can be passed
fn gen_ancestor_list(r: &mut Rng, w: &World, parent: Option<usize>) -> (Vec<usize>, Flavour) {
    let Some(p) = parent else { return (vec![], Flavour::Exact) };
    // the uncommitted part of the chain, as far as handles are held
    let mut ids = vec![p];
    for &a in &w.ovs[p].chain {
        if w.ovs[a].committed && r.chance(4, 5) {
            break;
        }
        if w.ovs[a].handle.is_none() {
            break;
        }
        ids.push(a);
    }
    let held: Vec<usize> = (0..w.ovs.len()).filter(|&o| w.ovs[o].handle.is_some()).collect();
    let flavour = match r.below(12) {
        0 => Flavour::Short,
        1 => Flavour::Long,
        2 => Flavour::Wrong,
        3 => Flavour::Reordered,
        _ => Flavour::Exact,
    };
    match flavour {
        Flavour::Exact => {}
        Flavour::Short => {
            let n = r.below(ids.len()).max(1);
            ids.truncate(n);
        }
        Flavour::Long => {
            for _ in 0..r.range(1, 2) {
                ids.push(*r.pick(&held));
            }
        }
        Flavour::Wrong => {
            if ids.len() > 1 {
                let i = r.range(1, ids.len() - 1);
                ids[i] = *r.pick(&held);
            } else {
                ids.push(*r.pick(&held));
            }
        }
        Flavour::Reordered => {
            if ids.len() > 2 {
                let i = r.range(1, ids.len() - 2);
                ids.swap(i, i + 1);
            }
        }
    }
    (ids, flavour)
}

fn do_live(_r: &mut Rng, w: &mut World, ids: &[usize], flavour: Flavour, out: &mut Sink) -> Option<usize> {
    let lid = w.next_live;
    w.next_live += 1;
    let ids_str = if ids.is_empty() { "-".to_string() } else { ids.iter().map(|i| i.to_string()).collect::<Vec<_>>().join(",") };
    let op = format!("live {lid} {ids_str}");
    let handles: Vec<&Overlay> = ids.iter().map(|&i| w.ovs[i].handle.as_ref().unwrap()).collect();
    let res = std::panic::catch_unwind(std::panic::AssertUnwindSafe(|| LiveSim::new(handles.iter().cloned())));
    out.count(&format!("live_{flavour:?}"));
    // ---- the specification of acceptance, computed from the harness' own records
    let expect: Result<usize, InvalidAncestors> = (|| {
        let Some(&p) = ids.first() else { return Ok(0) };
        let acts = &w.ovs[p].chain;
        let n = (ids.len() - 1).min(acts.len());
        for i in 0..n {
            if !w.alive(acts[i]) {
                return Err(InvalidAncestors::Incomplete);
            }
            if ids[i + 1] != acts[i] {
                return Err(InvalidAncestors::NotAncestor);
            }
        }
        let last = if n == 0 { p } else { acts[n - 1] };
        match w.ovs[last].parent {
            Some(q) if !w.ovs[q].committed => Err(InvalidAncestors::Incomplete),
            _ => Ok(n),
        }
    })();
    match res {
        Err(_) => {
            out.line(op.clone(), "panic".into());
            out.fail(format!("C11 LiveOverlay::new panicked: {op}"));
            None
        }
        Ok(Err(e)) => {
            out.line(op.clone(), match e { InvalidAncestors::NotAncestor => "err notancestor".into(), InvalidAncestors::Incomplete => "err incomplete".into() });
            out.count("live_refused");
            if expect != Err(e) {
                out.fail(format!("C11 LiveOverlay::new refused {op} with {e:?}, the chain specification says {expect:?}"));
            }
            None
        }
        Ok(Ok(live)) => {
            let (has_parent, n, min) = live.shape();
            out.line(op.clone(), format!("ok parent={} n={n} min={min}", has_parent as u8));
            out.count("live_accepted");
            if expect != Ok(n) {
                out.fail(format!("C11 LiveOverlay::new accepted {op} (n={n}), the chain specification says {expect:?}"));
            }
            let chain: Vec<usize> = match ids.first() {
                None => vec![],
                Some(&p) => std::iter::once(p).chain(w.ovs[p].chain.iter().cloned().take(n)).collect(),
            };
            // C11: an accepted chain reaches down to the committed state
            if let Some(&last) = chain.last() {
                if let Some(q) = w.ovs[last].parent {
                    if !w.ovs[q].committed {
                        out.fail(format!("C11 accepted chain {chain:?} ends above the uncommitted overlay {q}"));
                    }
                }
                let p = chain[0];
                if min != w.ovs[p].seqn - n as u64 {
                    out.fail(format!("C11 min_seqn {min} of an accepted chain is not parent.seqn - n = {}", w.ovs[p].seqn - n as u64));
                }
            }
            w.lives.insert(lid, LiveInfo { live, chain });
            Some(lid)
        }
    }
}

/// the youngest change along the chain: BTreeMap fold, oldest first
fn fold_chain(w: &World, chain: &[usize]) -> BTreeMap<Key, Change> {
    let mut m = BTreeMap::new();
    for &o in chain.iter().rev() {
        for (k, c) in &w.ovs[o].changes {
            m.insert(*k, c.clone());
        }
    }
    m
}

fn do_lookups(r: &mut Rng, w: &World, lid: usize, universe: &[Key], pages: &[PageId], orderly: bool, out: &mut Sink) {
    let li = &w.lives[&lid];
    let folded = fold_chain(w, &li.chain);
    // ---- value: every key of the universe, plus neighbours
    let mut probes: Vec<Key> = universe.to_vec();
    for _ in 0..3 {
        let k = *r.pick(universe);
        probes.push(if r.chance(1, 2) { succ(&k) } else { pred(&k) });
    }
    let consistent = match li.chain.first() {
        None => true,
        Some(&p) => {
            let lin = w.lineage(p);
            let in_lineage = lin.iter().filter(|&&o| w.ovs[o].committed).count();
            w.commits == w.ovs[*lin.last().unwrap()].base_version + in_lineage
        }
    };
    for k in &probes {
        let got = std::panic::catch_unwind(std::panic::AssertUnwindSafe(|| li.live.value(k)));
        let op = format!("val {lid} {}", hex(k));
        match got {
            Err(_) => {
                out.line(op.clone(), "panic".into());
                out.fail(format!("C11 LiveOverlay::value panicked: {op}"));
            }
            Ok(got) => {
                out.line(op.clone(), match &got { None => "none".into(), Some(c) => format!("some {}", show_change(c)) });
                let want = folded.get(k).cloned();
                if got != want {
                    out.fail(format!("C11 value({}) through chain {:?} = {got:?}, the youngest change is {want:?}", hex(k), li.chain));
                }
                // the session's read: falls through to the committed map
                if orderly && consistent {
                    let read = match &got { Some(c) => c.clone(), None => w.disk.get(k).cloned() };
                    let intended = match li.chain.first() { Some(&p) => w.ovs[p].full_view.get(k).cloned(), None => w.disk.get(k).cloned() };
                    if read != intended {
                        out.fail(format!("C11 a session on chain {:?} reads {read:?} for {}, the state the overlay stands for holds {intended:?}", li.chain, hex(k)));
                    }
                    out.count("view_checks");
                }
                if got.is_some() {
                    out.nontrivial(&op);
                }
            }
        }
        out.count("value_lookups");
    }
    // ---- pages
    let mut pfold: BTreeMap<[u8; 32], u8> = BTreeMap::new();
    for &o in li.chain.iter().rev() {
        for (p, m) in &w.ovs[o].pages {
            pfold.insert(*p, *m);
        }
    }
    for p in pages {
        let got = std::panic::catch_unwind(std::panic::AssertUnwindSafe(|| li.live.page(p)));
        let op = format!("page {lid} {}", hex(&p.encode()));
        match got {
            Err(_) => {
                out.line(op.clone(), "panic".into());
                out.fail(format!("C11 LiveOverlay::page panicked: {op}"));
            }
            Ok(got) => {
                out.line(op, match got { None => "none".into(), Some(m) => format!("some {m:02x}") });
                if got != pfold.get(&p.encode()).cloned() {
                    out.fail(format!("C11 page({:?}) through chain {:?} = {got:?}, the youngest change is {:?}", p, li.chain, pfold.get(&p.encode())));
                }
            }
        }
    }
    // ---- value_iter: bounds exactly on keys, just below / above, empty and full ranges
    let mut cands: Vec<Key> = vec![[0u8; 32], [0xffu8; 32]];
    for k in universe {
        cands.push(*k);
        cands.push(succ(k));
        cands.push(pred(k));
    }
    let mut hot: Vec<Key> = vec![];
    for k in folded.keys() {
        hot.push(*k);
        hot.push(succ(k));
        hot.push(pred(k));
    }
    let nranges = r.range(3, 8);
    for i in 0..nranges {
        let (a, b): (Key, Option<Key>) = match i {
            0 => ([0u8; 32], None),
            1 => {
                let k = *r.pick(universe);
                (k, Some(succ(&k))) // exactly one key
            }
            2 => {
                let k = *r.pick(universe);
                (k, Some(k)) // empty
            }
            _ => {
                // bounds on / next to keys the chain really changes, mostly a proper range
                let pool: &Vec<Key> = if !hot.is_empty() && r.chance(3, 4) { &hot } else { &cands };
                let a = *r.pick(pool);
                let b = if r.chance(1, 6) { None } else { Some(*r.pick(pool)) };
                match b {
                    Some(b) if b < a && r.chance(4, 5) => (b, Some(a)),
                    _ => (a, b),
                }
            }
        };
        let got = std::panic::catch_unwind(std::panic::AssertUnwindSafe(|| li.live.value_iter(a, b)));
        let op = format!("iter {lid} {} {}", hex(&a), b.map(|b| hex(&b)).unwrap_or("-".into()));
        match got {
            Err(_) => {
                out.line(op.clone(), "panic".into());
                out.fail(format!("C05 LiveOverlay::value_iter panicked: {op}"));
            }
            Ok(got) => {
                out.line(op.clone(), show_writes(&got));
                let want: Vec<(Key, Change)> = folded.range(a..).filter(|(k, _)| b.map_or(true, |b| **k < b)).map(|(k, c)| (*k, c.clone())).collect();
                if got != want {
                    out.fail(format!(
                        "C05 value_iter({}, {:?}) through chain {:?} yields {} items {}, the changes in the half-open range are {} items {}",
                        hex(&a),
                        b.map(|b| hex(&b)),
                        li.chain,
                        got.len(),
                        show_writes(&got),
                        want.len(),
                        show_writes(&want)
                    ));
                }
                if !got.is_empty() {
                    out.nontrivial(&op);
                }
                out.count(if got.is_empty() { "iter_empty" } else { "iter_nonempty" });
            }
        }
    }
}

fn do_finish(r: &mut Rng, w: &mut World, lid: usize, universe: &[Key], pages: &[PageId], out: &mut Sink) -> usize {
    let oid = w.ovs.len();
    let chain = w.lives[&lid].chain.clone();
    let folded = fold_chain(w, &chain);
    // ---- changes over the dense universe: overwrite, delete what an ancestor inserted, re-insert what one deleted
    let mut changes: BTreeMap<Key, Change> = BTreeMap::new();
    let nch = *r.pick(&[0usize, 1, 2, 3, 4, 6, universe.len(), universe.len()]);
    for _ in 0..nch {
        let k = *r.pick(universe);
        let c = match folded.get(&k) {
            Some(Some(_)) if r.chance(1, 2) => None,
            Some(None) if r.chance(3, 4) => Some(random_value(r)),
            _ => {
                if r.chance(1, 4) {
                    None
                } else {
                    Some(random_value(r))
                }
            }
        };
        changes.insert(k, c);
    }
    let mut pch: BTreeMap<[u8; 32], u8> = BTreeMap::new();
    let mut pvec: Vec<(PageId, u8)> = vec![];
    for p in pages {
        if r.chance(1, 3) {
            let m = r.below(256) as u8;
            pch.insert(p.encode(), m);
            pvec.push((p.clone(), m));
        }
    }
    // hand the changes over in a random order (they go through a HashMap anyway)
    let mut vvec: Vec<(Key, Change)> = changes.iter().map(|(k, c)| (*k, c.clone())).collect();
    for i in (1..vvec.len()).rev() {
        let j = r.below(i + 1);
        vvec.swap(i, j);
    }
    let pstr = if pvec.is_empty() { "-".to_string() } else { pvec.iter().map(|(p, m)| format!("{}:{m:02x}", hex(&p.encode()))).collect::<Vec<_>>().join(",") };
    let op = format!("finish {lid} {oid} {} {pstr}", show_writes(&vvec));
    let ov = w.lives[&lid].live.finish([0u8; 32], [1u8; 32], pvec, vvec);
    let (seqn, idx, log, nanc) = overlay_index(&ov);
    let (pidx, plog) = overlay_page_index(&ov);
    out.line(op.clone(), format!("ok seqn={seqn} anc={nanc} idx={} log={} pidx={} plog={}", show_idx(&idx), show_log(&log), show_idx(&pidx), show_log(&plog)));
    out.count("finishes");
    out.nontrivial(&op);
    // ---- index oracle: exactly the keys of the creation chain, youngest changer's sequence number
    let parent = chain.first().cloned();
    let want_seqn = parent.map_or(0, |p| w.ovs[p].seqn + 1);
    if seqn != want_seqn || nanc != chain.len() {
        out.fail(format!("C11 finish: seqn {seqn} / {nanc} ancestors, expected {want_seqn} / {}", chain.len()));
    }
    let mut want_idx: BTreeMap<Key, u64> = BTreeMap::new();
    for &o in chain.iter().rev() {
        for k in w.ovs[o].changes.keys() {
            want_idx.insert(*k, w.ovs[o].seqn);
        }
    }
    for k in changes.keys() {
        want_idx.insert(*k, want_seqn);
    }
    let want_idx: Vec<(Key, u64)> = want_idx.into_iter().collect();
    if idx != want_idx {
        out.fail(format!("C11 finish: the index of overlay {oid} is {} but the creation chain {chain:?} + own changes give {}", show_idx(&idx), show_idx(&want_idx)));
    }
    if log.windows(2).any(|p| p[0].0 > p[1].0) {
        out.fail(format!("C11 finish: values_by_seqn of overlay {oid} is not ascending"));
    }
    let min_kept = want_seqn - chain.len() as u64;
    if log.iter().any(|e| e.0 < min_kept) || plog.iter().any(|e| e.0 < min_kept) {
        out.fail(format!("C11 finish: the log of overlay {oid} still holds entries of pruned ancestors (below {min_kept})"));
    }
    if chain.iter().any(|&o| !w.ovs[o].pages.is_empty()) || !pch.is_empty() {
        out.count("finishes_with_pages");
    }
    let (full_view, base_version) = match parent {
        Some(p) => (w.ovs[p].full_view.clone(), w.ovs[*w.lineage(p).last().unwrap()].base_version),
        None => (w.disk.clone(), w.commits),
    };
    let mut full_view = full_view;
    for (k, c) in &changes {
        match c {
            Some(v) => {
                full_view.insert(*k, v.clone());
            }
            None => {
                full_view.remove(k);
            }
        }
    }
    w.ovs.push(OvInfo { handle: Some(ov), seqn, parent, chain, changes, pages: pch, full_view, base_version, committed: false });
    oid
}

// ---------------------------------------------------------------------------------------------
// the real BeatreeIterator over hand-built leaves

fn run_iterator_case(case: usize, r: &mut Rng, out: &mut Sink) {
    let universe = gen_universe(r);
    let zero = [0u8; 32];
    // ---- disk entries: a sorted subset of the universe, cut into leaves
    let mut disk: Vec<(Key, Vec<u8>)> = vec![];
    for k in &universe {
        if r.chance(2, 3) {
            disk.push((*k, random_value(r)));
        }
    }
    let mut leaves: Vec<(Key, Vec<(Key, Vec<u8>)>)> = vec![];
    let mut i = 0;
    while i < disk.len() {
        let n = r.range(1, 4).min(disk.len() - i);
        let entries = disk[i..i + n].to_vec();
        let sep = if leaves.is_empty() {
            zero
        } else {
            // between the previous leaf's last key (exclusive) and this leaf's first key (inclusive)
            let prev_last = disk[i - 1].0;
            let first = entries[0].0;
            match r.below(3) {
                0 => first,
                1 => succ(&prev_last),
                _ => {
                    // the shortest separator: common prefix with the previous key + the differing 1-bit
                    let d = shared_bits(&prev_last, &first);
                    let mut s = [0u8; 32];
                    for b in 0..=d.min(255) {
                        set_bit(&mut s, b, bit(&first, b));
                    }
                    s
                }
            }
        };
        leaves.push((sep, entries));
        i += n;
    }
    if leaves.is_empty() && r.chance(1, 2) {
        // a tree always has its first leaf
        leaves.push((zero, vec![]));
    }
    // branches
    let mut branches: Vec<Vec<(Key, Vec<(Key, Vec<u8>)>)>> = vec![];
    let mut rest = leaves.clone();
    while !rest.is_empty() {
        let n = r.range(1, 3).min(rest.len());
        let tail = rest.split_off(n);
        branches.push(rest);
        rest = tail;
    }
    // staging maps
    let gen_staging = |r: &mut Rng| -> Vec<(Key, Change)> {
        let mut m: BTreeMap<Key, Change> = BTreeMap::new();
        for k in &universe {
            if r.chance(1, 3) {
                m.insert(*k, if r.chance(2, 5) { None } else { Some(random_value(r)) });
            }
        }
        m.into_iter().collect()
    };
    let primary = gen_staging(r);
    let secondary = if r.chance(2, 3) { Some(gen_staging(r)) } else { None };
    out.mark_case(format!("case {case} iterator universe={} leaves={} branches={}", universe.len(), leaves.len(), branches.len()));
    let mut cands: Vec<Key> = vec![zero, [0xffu8; 32]];
    for k in &universe {
        cands.push(*k);
        cands.push(succ(k));
        cands.push(pred(k));
    }
    for (s, _) in &leaves {
        cands.push(*s);
    }
    cands.sort();
    cands.dedup();
    for q in 0..r.range(3, 7) {
        let (a, b): (Key, Option<Key>) = if q == 0 {
            (zero, None)
        } else {
            let a = *r.pick(&cands);
            if r.chance(1, 5) {
                (a, None)
            } else {
                let above: Vec<Key> = cands.iter().cloned().filter(|k| *k > a).collect();
                if above.is_empty() {
                    (a, None)
                } else {
                    (a, Some(*r.pick(&above)))
                }
            }
        };
        let leaves_str = if leaves.is_empty() { "-".to_string() } else { leaves.iter().map(|(s, es)| format!("{}={}", hex(s), show_kv(es))).collect::<Vec<_>>().join(";") };
        let op = format!(
            "bti {} {} {} {} {}",
            hex(&a),
            b.map(|b| hex(&b)).unwrap_or("-".into()),
            show_writes(&primary),
            secondary.as_ref().map(|s| show_writes(s)).unwrap_or("none".into()),
            leaves_str
        );
        let res = std::panic::catch_unwind(std::panic::AssertUnwindSafe(|| beatree_run_iterator(primary.clone(), secondary.clone(), branches.clone(), a, b)));
        out.count("iterator_runs");
        match res {
            Err(_) => {
                out.line(op.clone(), "panic".into());
                out.fail(format!("C05 BeatreeIterator panicked: {}", &op[..op.len().min(400)]));
            }
            Ok(Err(e)) => {
                out.line(op.clone(), format!("error {e}"));
                out.fail(format!("C05 BeatreeIterator: {e}: {}", &op[..op.len().min(400)]));
            }
            Ok(Ok((items, provided, _needed))) => {
                out.line(op.clone(), format!("items={} loaded={}", show_kv(&items), provided.len()));
                // oracle: disk ⊕ secondary ⊕ primary, restricted to [a, b)
                let mut m: BTreeMap<Key, Vec<u8>> = disk.iter().cloned().collect();
                for st in [secondary.as_ref(), Some(&primary)].into_iter().flatten() {
                    for (k, c) in st {
                        match c {
                            Some(v) => {
                                m.insert(*k, v.clone());
                            }
                            None => {
                                m.remove(k);
                            }
                        }
                    }
                }
                let want: Vec<(Key, Vec<u8>)> = m.range(a..).filter(|(k, _)| b.map_or(true, |b| **k < b)).map(|(k, v)| (*k, v.clone())).collect();
                if items != want {
                    out.fail(format!(
                        "C05 BeatreeIterator over [{}, {:?}) yields {} but disk + staging hold {} there",
                        hex(&a),
                        b.map(|b| hex(&b)),
                        show_kv(&items),
                        show_kv(&want)
                    ));
                }
                if provided.windows(2).any(|p| p[0] >= p[1]) {
                    out.fail(format!("C05 BeatreeIterator asked for leaves out of order: {provided:?}"));
                }
                if !items.is_empty() {
                    out.nontrivial(&op);
                }
                if out.samples.len() < 3 {
                    let mut s = op.clone();
                    s.truncate(200);
                    out.samples.push(s);
                }
            }
        }
    }
}

// ---------------------------------------------------------------------------------------------
// the overlay-aware seek of a REAL store: `begin_leaf_fetch` / `continue_leaf_fetch` (the leaf below a leaf node)
// and `continue_leaves_fetch` (reconstruction of elided pages) merge the session's `value_iter` with the on-disk
// leaves.  A small real store under /dev/shm, a chain of real overlays over a dense universe, and a path proof of
// EVERY key of the universe (and neighbours) from a session on the chain.

fn subtree_range(k: &Key, depth: usize) -> (Key, Option<Key>) {
    let mut lo = *k;
    let mut hi = *k;
    for i in depth..256 {
        set_bit(&mut lo, i, false);
        set_bit(&mut hi, i, true);
    }
    (lo, if hi == [0xffu8; 32] { None } else { Some(succ(&hi)) })
}

fn show_hashed(ws: &[(Key, Change)]) -> String {
    if ws.is_empty() {
        return "-".into();
    }
    ws.iter()
        .map(|(k, c)| match c {
            Some(v) => format!("{}:{}", hex(k), hex(&crate::db::vhash(v))),
            None => format!("{}:-", hex(k)),
        })
        .collect::<Vec<_>>()
        .join(",")
}

fn run_seek_case(seed: u64, case: usize, r: &mut Rng, out: &mut Sink) {
    use nomt::hasher::Blake3Hasher;
    use nomt::proof::PathProofTerminal;
    use nomt::{KeyReadWrite, Nomt, Overlay as RealOverlay, SessionParams};
    use nomt_core::hasher::NodeHasher;
    use nomt_core::trie::{InternalData, LeafData, TERMINATOR};
    let mut universe = gen_universe(r);
    // every other case: a cluster of > 20 leaves under one 6-bit prefix so that some pages are stored, not elided
    if r.chance(1, 2) {
        let base = r.bytes32();
        let d = *r.pick(&[6usize, 7, 12, 13]);
        let mut set: BTreeSet<Key> = universe.iter().cloned().collect();
        for _ in 0..r.range(21, 30) {
            set.insert(with_prefix(r, &base, d));
        }
        universe = set.into_iter().collect();
    }
    let mut cfg = crate::db::DbCfg::gen(r);
    cfg.rollback = r.chance(1, 2);
    let dir = format!("/dev/shm/nomt-verif-ovl-{}-{seed}-{case}", std::process::id());
    let _ = std::fs::remove_dir_all(&dir);
    out.mark_case(format!("case {case} seek universe={} cfg: {}", universe.len(), cfg.describe()));
    let db: Nomt<Blake3Hasher> = match Nomt::open(cfg.options(&dir)) {
        Ok(db) => db,
        Err(e) => {
            out.fail(format!("C11 cannot create the store: {e:#}"));
            return;
        }
    };
    let mut disk: BTreeMap<Key, Vec<u8>> = BTreeMap::new();
    let mut overlays: Vec<(RealOverlay, BTreeMap<Key, Change>)> = vec![]; // oldest first
    let result = std::panic::catch_unwind(std::panic::AssertUnwindSafe(|| -> Result<(), String> {
        // ---- the committed map
        let mut writes: BTreeMap<Key, Change> = BTreeMap::new();
        for k in &universe {
            if r.chance(3, 5) {
                writes.insert(*k, Some(random_value(r)));
            }
        }
        let sess = db.begin_session(SessionParams::default());
        let actuals: Vec<(Key, KeyReadWrite)> = writes.iter().map(|(k, v)| (*k, KeyReadWrite::Write(v.clone()))).collect();
        sess.finish(actuals).map_err(|e| format!("finish: {e:#}"))?.commit(&db).map_err(|e| format!("commit: {e:#}"))?;
        for (k, v) in writes {
            disk.insert(k, v.unwrap());
        }
        // ---- a chain of overlays; the oldest ones may get committed on the way
        let n_ov = r.range(1, 4);
        for _ in 0..n_ov {
            let view = fold_view(&disk, &overlays);
            let mut ch: BTreeMap<Key, Change> = BTreeMap::new();
            for _ in 0..*r.pick(&[1usize, 2, 3, 5, universe.len() / 2]) {
                let k = *r.pick(&universe);
                let c = if view.contains_key(&k) && r.chance(1, 2) { None } else if r.chance(1, 6) { None } else { Some(random_value(r)) };
                ch.insert(k, c);
            }
            let refs: Vec<&RealOverlay> = overlays.iter().rev().map(|o| &o.0).collect();
            let params = SessionParams::default().overlay(refs).map_err(|e| format!("overlay chain refused: {e:?}"))?;
            let sess = db.begin_session(params);
            let actuals: Vec<(Key, KeyReadWrite)> = ch.iter().map(|(k, v)| (*k, KeyReadWrite::Write(v.clone()))).collect();
            let ov = sess.finish(actuals).map_err(|e| format!("finish: {e:#}"))?.into_overlay();
            overlays.push((ov, ch));
            if overlays.len() >= 2 && r.chance(1, 4) {
                let (ov, ch) = overlays.remove(0);
                ov.commit(&db).map_err(|e| format!("overlay commit: {e:#}"))?;
                for (k, c) in ch {
                    match c {
                        Some(v) => {
                            disk.insert(k, v);
                        }
                        None => {
                            disk.remove(&k);
                        }
                    }
                }
                out.count("seek_overlay_commits");
            }
        }
        Ok(())
    }));
    match result {
        Err(_) => {
            out.fail(format!("C11 building the overlay chain on the real store panicked (case {case})"));
            drop(overlays);
            drop(db);
            let _ = std::fs::remove_dir_all(&dir);
            return;
        }
        Ok(Err(e)) => {
            out.fail(format!("C11 building the overlay chain on the real store failed: {e} (case {case})"));
            drop(overlays);
            drop(db);
            let _ = std::fs::remove_dir_all(&dir);
            return;
        }
        Ok(Ok(())) => {}
    }
    // ---- the session on the chain
    let view = fold_view(&disk, &overlays);
    let mut folded: BTreeMap<Key, Change> = BTreeMap::new();
    for (_, ch) in &overlays {
        for (k, c) in ch {
            folded.insert(*k, c.clone());
        }
    }
    let hashes: Vec<(Key, [u8; 32])> = view.iter().map(|(k, v)| (*k, crate::db::vhash(v))).collect();
    let want_root = ref_root(&hashes);
    let refs: Vec<&RealOverlay> = overlays.iter().rev().map(|o| &o.0).collect();
    let sess = match SessionParams::default().overlay(refs) {
        Ok(p) => db.begin_session(p),
        Err(e) => {
            out.fail(format!("C11 the complete chain was refused: {e:?}"));
            return;
        }
    };
    if sess.prev_root().into_inner() != want_root {
        out.fail(format!("C11 the root of the overlay chain is not the root of committed map + changes (case {case})"));
    }
    let mut probes: Vec<Key> = universe.clone();
    for _ in 0..4 {
        let k = *r.pick(&universe);
        probes.push(if r.chance(1, 2) { succ(&k) } else { pred(&k) });
    }
    for k in &probes {
        let proof = match std::panic::catch_unwind(std::panic::AssertUnwindSafe(|| sess.prove(*k))) {
            Err(_) => {
                out.fail(format!("C05 Session::prove panicked for {} on an overlay chain (case {case})", hex(k)));
                if disk.len() + folded.len() <= 64 {
                    let disk_items: Vec<(Key, Vec<u8>)> = disk.iter().map(|(k, v)| (*k, crate::db::vhash(v).to_vec())).collect();
                    let ov_items: Vec<(Key, Change)> = folded.iter().map(|(k, c)| (*k, c.clone())).collect();
                    out.line(format!("seeknode 0 {} {}", show_kv(&disk_items), show_hashed(&ov_items)), "panic".into());
                }
                continue;
            }
            Ok(Err(e)) => {
                out.fail(format!("C05 Session::prove failed: {e:#}"));
                continue;
            }
            Ok(Ok(p)) => p,
        };
        out.count("seek_proofs");
        let d = proof.siblings.len();
        // oracle: the proof is the reference proof of the view
        let (want_term, want_sibs) = ref_prove(&hashes, k);
        let got_term = match &proof.terminal {
            PathProofTerminal::Leaf(l) => RefTerminal::Leaf(l.key_path, l.value_hash),
            PathProofTerminal::Terminator(p) => RefTerminal::Terminator(p.depth() as usize),
        };
        if got_term != want_term || proof.siblings != want_sibs {
            out.fail(format!(
                "C05 the proof of {} from a session on {} overlays is not the proof of committed map + changes: terminal {:?} at depth {d}, expected {:?} at depth {}",
                hex(k),
                overlays.len(),
                got_term,
                want_term,
                want_sibs.len()
            ));
        }
        // the real node at every page boundary above the terminal, from the real proof
        let mut node = match &proof.terminal {
            PathProofTerminal::Leaf(l) => Blake3Hasher::hash_leaf(&LeafData { key_path: l.key_path, value_hash: l.value_hash }),
            PathProofTerminal::Terminator(_) => TERMINATOR,
        };
        let mut node_at: BTreeMap<usize, [u8; 32]> = BTreeMap::new();
        node_at.insert(d, node);
        for i in (0..d).rev() {
            let s = proof.siblings[i];
            node = if bit(k, i) { Blake3Hasher::hash_internal(&InternalData { left: s, right: node }) } else { Blake3Hasher::hash_internal(&InternalData { left: node, right: s }) };
            node_at.insert(i, node);
        }
        // ---- the leaf fetch below a leaf node: disk items and the REAL overlay items of the terminal's range
        if let PathProofTerminal::Leaf(l) = &proof.terminal {
            let (a, b) = subtree_range(k, d);
            let ov_items = sess.verif_overlay_value_iter(a, b);
            let want_items: Vec<(Key, Change)> = folded.range(a..).filter(|(k, _)| b.map_or(true, |b| **k < b)).map(|(k, c)| (*k, c.clone())).collect();
            if ov_items != want_items {
                out.fail(format!("C05 value_iter of the session's chain over the leaf's range yields {} but the chain changes {}", show_writes(&ov_items), show_writes(&want_items)));
            }
            let disk_items: Vec<(Key, Vec<u8>)> = disk.range(a..).filter(|(k, _)| b.map_or(true, |b| **k < b)).map(|(k, v)| (*k, crate::db::vhash(v).to_vec())).collect();
            let op = format!("leaffetch {} {}", show_kv(&disk_items), show_hashed(&ov_items));
            out.line(op.clone(), format!("ok {}:{}", hex(&l.key_path), hex(&l.value_hash)));
            out.count(if ov_items.is_empty() { "seek_leaf_plain" } else if ov_items.iter().any(|i| i.1.is_some()) { "seek_leaf_overlay_insert" } else { "seek_leaf_overlay_deletes" });
            if !ov_items.is_empty() {
                out.nontrivial(&op);
            }
        }
        // ---- the merged range below every page boundary on the path (what an elided page is rebuilt from)
        let mut dd = 6;
        while dd <= d {
            let (a, b) = subtree_range(k, dd);
            let ov_items = sess.verif_overlay_value_iter(a, b);
            let disk_items: Vec<(Key, Vec<u8>)> = disk.range(a..).filter(|(k, _)| b.map_or(true, |b| **k < b)).map(|(k, v)| (*k, crate::db::vhash(v).to_vec())).collect();
            if disk_items.len() + ov_items.len() <= 64 {
                let op = format!("seeknode {dd} {} {}", show_kv(&disk_items), show_hashed(&ov_items));
                out.line(op.clone(), hex(&node_at[&dd]));
                out.count("seek_nodes");
                if !ov_items.is_empty() && !disk_items.is_empty() {
                    out.nontrivial(&op);
                    out.count("seek_nodes_merged");
                }
            }
            dd += if dd < 24 { 6 } else { 60 };
        }
    }
    drop(sess);
    drop(overlays);
    drop(db);
    let _ = std::fs::remove_dir_all(&dir);
}

fn fold_view(disk: &BTreeMap<Key, Vec<u8>>, overlays: &[(nomt::Overlay, BTreeMap<Key, Change>)]) -> BTreeMap<Key, Vec<u8>> {
    let mut m = disk.clone();
    for (_, ch) in overlays {
        for (k, c) in ch {
            match c {
                Some(v) => {
                    m.insert(*k, v.clone());
                }
                None => {
                    m.remove(k);
                }
            }
        }
    }
    m
}
