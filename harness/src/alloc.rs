//! C19 / C17 / C05: the real free list (`beatree/allocator/free_list.rs`, driven exactly as one sync drives it:
//! `SyncAllocator::allocate` per allocation index, then `SyncFinisher::finish`) and the real bitbox probing
//! (`ProbeSequence`, `allocate_bucket`) on generated inputs, through `nomt::verif_api` (cfg nomt_verif).
//! Every step emits one protocol line for the Lean driver's `alloc` mode (free-list model / probing model) and is
//! checked against harness-side oracles that do not depend on the model:
//!   * conservation (C19): tracked pages and live pages partition [1, bump) before and after every sync;
//!   * allocation (C17/C19): `allocate` hands out only pages free at the start of the sync or beyond the frontier;
//!   * placement (C17): no free-list page is written at a page number the previous state uses (its live pages and
//!     the pages holding its free list);
//!   * encoding (C16): the pages handed to the writer decode to the portions of the new list, linked head to tail.
use crate::util::*;
use nomt::verif_api::{allocate_bucket, hash_raw_page_id, probe_results, FreeListSim};
use nomt_core::page_id::{ChildPageIndex, PageId, ROOT_PAGE_ID};
use std::collections::BTreeSet;

const CAP: usize = 1022;

fn list_str(v: &[u32]) -> String {
    if v.is_empty() {
        "-".into()
    } else {
        v.iter().map(|x| x.to_string()).collect::<Vec<_>>().join(".")
    }
}

/// Rust order (tail first, items bottom first) -> model order (head first, items top first)
fn portions_str(p: &[(u32, Vec<u32>)]) -> String {
    if p.is_empty() {
        return "-".into();
    }
    p.iter()
        .rev()
        .map(|(pn, items)| {
            let rev: Vec<u32> = items.iter().rev().cloned().collect();
            format!("{}:{}", pn, list_str(&rev))
        })
        .collect::<Vec<_>>()
        .join(";")
}

fn tracked(p: &[(u32, Vec<u32>)]) -> BTreeSet<u32> {
    p.iter().flat_map(|(pn, items)| std::iter::once(*pn).chain(items.iter().cloned())).collect()
}

pub fn run_freelist(seed: u64, cases: usize, out: &mut Sink) {
    let mut rng = Rng::new(seed ^ 0xF1EE);
    for case in 0..cases {
        let mut r = rng.fork();
        // ---- a well-shaped start state
        let full = *r.pick(&[0usize, 0, 1, 1, 1, 2, 3]);
        let shape = r.below(10);
        let (head_len, fragmented) = match shape {
            0 => (0usize, false), // no head beyond the full portions (or an empty list)
            1 => (1, false),
            2 => (2, false),
            3 => (CAP - 1, false),
            4 => (CAP, false),
            5 => (1, full >= 1), // fragmented: head with one item over a portion with CAP-1 items
            _ => (r.range(1, CAP), false),
        };
        let mut sizes: Vec<usize> = vec![CAP; full];
        if fragmented {
            let l = sizes.len();
            sizes[l - 1] = CAP - 1;
        }
        if head_len > 0 {
            sizes.push(head_len);
        }
        let n_tracked: usize = sizes.iter().map(|s| s + 1).sum();
        let n_live = r.range(0, 2500);
        let bump0 = (1 + n_tracked + n_live) as u32;
        // a random permutation of 1..bump0
        let mut pns: Vec<u32> = (1..bump0).collect();
        for i in (1..pns.len()).rev() {
            let j = r.below(i + 1);
            pns.swap(i, j);
        }
        let mut it = pns.into_iter();
        let portions: Vec<(u32, Vec<u32>)> = sizes.iter().map(|&s| (it.next().unwrap(), (0..s).map(|_| it.next().unwrap()).collect())).collect();
        let mut live: BTreeSet<u32> = it.collect();
        let mut sim = FreeListSim::new(portions, bump0);
        out.mark_case(format!("case {case} freelist full={full} head={head_len} fragmented={fragmented} live={n_live}"));
        let rounds = 6;
        for round in 0..rounds {
            let before = sim.portions();
            let bump = sim.bump();
            let len = sim.len();
            let head = before.last().map(|p| p.1.len()).unwrap_or(0);
            // ---- how many pages this sync allocates and frees: around the interesting boundaries
            let a_choices = [0usize, 0, 1, 2, head.saturating_sub(1), head, head + 1, head + CAP, len.saturating_sub(1), len, len + 1, len + 3, r.range(0, 12), r.range(0, len + 5)];
            let a = *r.pick(&a_choices);
            let room = (CAP - head.min(CAP)) % CAP;
            let f_choices = [0usize, 0, 1, 2, room.saturating_sub(1), room, room + 1, room + CAP, r.range(0, 8), r.range(0, 2100)];
            let f = (*r.pick(&f_choices)).min(live.len());
            // the freed pages: live ones
            let lv: Vec<u32> = live.iter().cloned().collect();
            let mut freed: Vec<u32> = Vec::new();
            let mut chosen = BTreeSet::new();
            while freed.len() < f {
                let x = lv[r.below(lv.len())];
                if chosen.insert(x) {
                    freed.push(x);
                }
            }
            let old_tracked = tracked(&before);
            let old_list_pages: BTreeSet<u32> = before.iter().map(|p| p.0).collect();
            let old_items: BTreeSet<u32> = before.iter().flat_map(|p| p.1.iter().cloned()).collect();
            let op = format!("flfinish {CAP} {bump} {} {a} {}", portions_str(&before), list_str(&freed));
            let res = std::panic::catch_unwind(std::panic::AssertUnwindSafe(|| {
                let handed: Vec<u32> = (0..a).map(|i| sim.allocate(i)).collect();
                let written = sim.finish(a, freed.clone());
                (handed, written)
            }));
            out.count("fl_rounds");
            match res {
                Err(_) => {
                    out.line(op.clone(), "panic".into());
                    out.fail(format!("C19 free list panicked: {}", &op[..op.len().min(300)]));
                    break;
                }
                Ok((handed, written)) => {
                    let after = sim.portions();
                    let wl: Vec<u32> = written.iter().map(|w| w.0).collect();
                    out.line(op.clone(), format!("ok alloc={} bump={} written={} portions={}", list_str(&handed), sim.bump(), list_str(&wl), portions_str(&after)));
                    let brief = format!("case {case} round {round} head={head} len={len} allocations={a} freed={f}");
                    // ---- C10 reopen oracle (hook H14): the pages written so far, read back by the REAL `FreeList::read` from the new head, must
                    // give the list the running handle holds — same portions in the same order and the same cached length (the length decides
                    // whether `allocate` takes a page from the list or from the frontier)
                    match sim.read_back(&format!("/dev/shm/nomt-verif-flread-{}-{case}-{round}", std::process::id())) {
                        Ok((rlen, rportions)) => {
                            out.count("fl_read_back");
                            if rportions.len() > 1 {
                                out.count("fl_read_back_multi_page");
                            }
                            if rportions != after {
                                out.fail(format!("C10 free list read back from its pages differs from the list in memory: read {} portions (head {:?} items), memory {} ({brief})",
                                    rportions.len(), rportions.last().map(|p| p.1.len()), after.len()));
                            }
                            if rlen != sim.len() {
                                out.fail(format!("C10 free list read back from its pages reports length {rlen}, the running handle {} ({brief})", sim.len()));
                            }
                        }
                        Err(e) => out.fail(format!("C10 free list cannot be read back from the pages it wrote: {e} ({brief})")),
                    }
                    // ---- allocation oracle
                    let mut seen = BTreeSet::new();
                    for &h in &handed {
                        if !(old_items.contains(&h) || h >= bump) {
                            out.fail(format!("C17 allocate handed out page {h} which was neither free nor beyond the frontier ({brief})"));
                        }
                        if !seen.insert(h) {
                            out.fail(format!("C19 allocate handed out page {h} twice ({brief})"));
                        }
                    }
                    // ---- placement oracle: where the new free-list pages go
                    for &w in &wl {
                        if old_list_pages.contains(&w) {
                            out.fail(format!("C17 free-list page {w} of the previous state is overwritten in place before the switch-over ({brief})"));
                        } else if live.contains(&w) {
                            out.fail(format!("C17 free-list page written over live page {w} ({brief})"));
                        } else if seen.contains(&w) {
                            out.fail(format!("C19 page {w} handed out to the tree and used for the free list in the same sync ({brief})"));
                        } else if !(old_items.contains(&w) || w >= bump) {
                            out.fail(format!("C17 free-list page {w} written to a page that was not free ({brief})"));
                        }
                    }
                    // ---- conservation
                    for h in &handed {
                        live.insert(*h);
                    }
                    for x in &freed {
                        live.remove(x);
                    }
                    let new_tracked = tracked(&after);
                    let n_after: usize = after.iter().map(|p| p.1.len() + 1).sum();
                    if new_tracked.len() != n_after {
                        out.fail(format!("C19 a page number occurs twice in the free list ({brief})"));
                    }
                    let nb = sim.bump();
                    let both: Vec<&u32> = new_tracked.intersection(&live).take(3).collect();
                    if !both.is_empty() {
                        out.fail(format!("C19 pages both free and in use after the sync: {both:?} ({brief})"));
                    }
                    let total = new_tracked.len() + live.len();
                    let in_range = new_tracked.iter().chain(live.iter()).all(|&p| p >= 1 && p < nb);
                    if !in_range || total != (nb as usize - 1) {
                        out.fail(format!("C19 pages leaked or out of range after the sync: tracked {} + live {} != bump-1 {} ({brief})", new_tracked.len(), live.len(), nb - 1));
                    }
                    // ---- encoding: every written page is a portion of the new list with the right link, and every
                    // portion that is new or changed was written
                    for (pn, prev, items) in &written {
                        match after.iter().position(|p| p.0 == *pn) {
                            None => out.fail(format!("C16 written free-list page {pn} is not part of the new list ({brief})")),
                            Some(i) => {
                                let want_prev = if i == 0 { 0 } else { after[i - 1].0 };
                                if after[i].1 != *items || *prev != want_prev {
                                    // a page may be encoded more than once; the LAST encoding must be the final one
                                    let last = written.iter().rev().find(|w| w.0 == *pn).unwrap();
                                    if last.2 != after[i].1 || last.1 != want_prev {
                                        out.fail(format!("C16 written free-list page {pn} does not hold the new portion ({brief})"));
                                    }
                                }
                            }
                        }
                    }
                    for (i, p) in after.iter().enumerate() {
                        let unchanged = before.get(i).map_or(false, |q| q == p) && (i == 0 || before.get(i - 1).map(|q| q.0) == Some(after[i - 1].0));
                        if !unchanged && !wl.contains(&p.0) {
                            out.fail(format!("C16 portion {} of the new free list is new or changed but was not written ({brief})", p.0));
                        }
                    }
                    let _ = old_tracked;
                    out.count(&format!("fl_head_{}", if head == 0 { "none" } else if head == 1 { "1" } else if head >= CAP - 1 { "full" } else { "mid" }));
                    if !wl.is_empty() {
                        out.nontrivial(&op);
                    }
                    if out.samples.len() < 3 {
                        let mut s = format!("{op}");
                        s.truncate(200);
                        out.samples.push(s);
                    }
                }
            }
        }
    }
}

fn gen_page_id(r: &mut Rng) -> PageId {
    let mut p = ROOT_PAGE_ID;
    let depth = r.below(8);
    for _ in 0..depth {
        let idx = ChildPageIndex::new(r.below(64) as u8).unwrap();
        p = p.child_page_id(idx).unwrap();
    }
    p
}

pub fn run_probe(seed: u64, cases: usize, out: &mut Sink) {
    let mut rng = Rng::new(seed ^ 0x9B0BE);
    for case in 0..cases {
        let mut r = rng.fork();
        let n = *r.pick(&[1usize, 2, 3, 4, 5, 7, 8, 10, 16, 31, 64, 100, 257, 1024, 4096, 5000]);
        let mut seed16 = [0u8; 16];
        seed16.copy_from_slice(&r.bytes32()[..16]);
        let pid = gen_page_id(&mut r);
        let raw = pid.encode();
        let hash = hash_raw_page_id(raw, &seed16);
        let tag = 0x80u8 | (hash >> 57) as u8;
        // ---- meta bytes
        let style = r.below(8);
        let mut meta = vec![0u8; n];
        for b in meta.iter_mut() {
            let rt = 0x80 | (r.below(128) as u8);
            *b = match style {
                0 => 0,                                                   // all empty
                1 => 0x7f,                                                // all tombstones
                2 => tag,                                                 // all full with OUR tag (possible hits everywhere)
                3 => 0x80 | (r.below(128) as u8),                         // all full, random tags
                4 => *r.pick(&[0x7fu8, tag, rt]), // no empty bucket
                5 => if r.chance(1, 20) { 0 } else { 0x80 | (r.below(128) as u8) }, // dense
                6 => if r.chance(1, 2) { 0 } else { *r.pick(&[0x7fu8, tag, rt]) },
                _ => if r.chance(9, 10) { 0 } else { 0x80 | (r.below(128) as u8) }, // sparse
            };
        }
        out.mark_case(format!("case {case} probe n={n} style={style}"));
        out.line(format!("pshash {} {}", hex(&seed16), hex(&raw)), hash.to_string());
        let count = (2 * n + 6).min(80);
        let res = probe_results(&meta, &pid, &seed16, count);
        let shown: Vec<String> = res.iter().map(|(k, b)| if *k == 'X' { "X".to_string() } else { format!("{k}{b}") }).collect();
        let op = format!("psnext {hash} {count} {}", hex(&meta));
        out.line(op.clone(), shown.join(" "));
        // oracle: every reported bucket is in range and of the reported kind
        for (k, b) in &res {
            let ok = match k {
                'E' => meta[*b as usize] == 0,
                'T' => meta[*b as usize] == 0x7f,
                'H' => meta[*b as usize] == tag,
                _ => true,
            };
            if !ok || (*k != 'X' && *b as usize >= n) {
                out.fail(format!("C05 probe result {k}{b} does not match the meta byte (n={n} style={style})"));
            }
        }
        let mut m2 = meta.clone();
        let got = allocate_bucket(&mut m2, &pid, &seed16);
        out.line(format!("psalloc {hash} {}", hex(&meta)), match got { Some(b) => format!("some {b}"), None => "none".into() });
        if let Some(b) = got {
            let b = b as usize;
            if !(meta[b] == 0 || meta[b] == 0x7f) {
                out.fail(format!("C19 allocate_bucket took bucket {b} which was full (n={n} style={style})"));
            }
            if m2[b] != tag || m2.iter().zip(meta.iter()).enumerate().any(|(i, (x, y))| i != b && x != y) {
                out.fail(format!("C19 allocate_bucket changed the wrong meta bytes (n={n} style={style})"));
            }
        } else if n <= 2000 && meta.iter().all(|&x| x == 0) {
            out.fail(format!("C19 allocate_bucket gave up on an all-empty table (n={n})"));
        }
        out.count(&format!("probe_style_{style}"));
        if res.iter().any(|(k, _)| *k == 'H' || *k == 'T') {
            out.nontrivial(&op);
        }
        if out.samples.len() < 3 {
            let mut s = op.clone();
            s.truncate(160);
            out.samples.push(s);
        }
    }
}

/// `Store::load_page` (the lookup `Nomt::open` performs for the root page: `PageLoader::probe`, `try_complete`
/// and the caller's retry) on REAL hash tables: tiny tables (64..300 buckets) filled by real commits of clustered
/// keys (every cluster of >= 20 leaves stores pages), churned so that tombstones and colliding 7-bit tags lie
/// on the probe paths.  After every commit the `ht` file is read back: for the label of every full bucket the
/// real lookup must return exactly that bucket and that page; pages that are not stored must not be found.
/// Every lookup is one `pslookup` line for the Lean probing model.
pub fn run_lookup(seed: u64, cases: usize, out: &mut Sink) {
    use nomt::{hasher::Blake3Hasher, KeyReadWrite, Nomt, SessionParams};
    let mut rng = Rng::new(seed ^ 0x100C);
    let pid = std::process::id();
    for case in 0..cases {
        let mut r = rng.fork();
        let n = *r.pick(&[64u32, 90, 128, 200, 256, 300]);
        let mut cfg = crate::db::DbCfg::gen(&mut r);
        cfg.buckets = n;
        cfg.rollback = false;
        cfg.workers = *r.pick(&[1usize, 2, 4]);
        let dir = format!("/dev/shm/nomt-verif-lk-{pid}-{seed}-{case}");
        let _ = std::fs::remove_dir_all(&dir);
        out.mark_case(format!("case {case} lookup buckets={n} cfg: {}", cfg.describe()));
        let db: Nomt<Blake3Hasher> = match Nomt::open(cfg.options(&dir)) {
            Ok(db) => db,
            Err(e) => {
                out.fail(format!("C10 cannot create the store: {e:#}"));
                continue;
            }
        };
        // clusters: 2-byte prefixes; each commit adds / removes whole groups of keys under some of them
        // 2..3 pages per cluster: aim at a load of 35..65 % (plus tombstones), so that probe paths are long
        let nclusters = r.range(n as usize / 7, n as usize / 4);
        let prefixes: Vec<[u8; 2]> = (0..nclusters).map(|_| [r.below(256) as u8, r.below(256) as u8]).collect();
        let mut present: std::collections::BTreeMap<Key, ()> = Default::default();
        let budget = (n as usize * 7) / 10; // stay below ~70 % load: a commit that exhausts the buckets fails
        for round in 0..r.range(3, 7) {
            let mut writes: std::collections::BTreeMap<Key, Option<Vec<u8>>> = Default::default();
            for p in &prefixes {
                match r.below(4) {
                    0 => {
                        // remove the cluster
                        for k in present.keys().filter(|k| k[0] == p[0] && k[1] == p[1]) {
                            writes.insert(*k, None);
                        }
                    }
                    1 => {}
                    _ => {
                        for _ in 0..r.range(20, 45) {
                            let mut k = r.bytes32();
                            k[0] = p[0];
                            k[1] = p[1];
                            if r.chance(1, 2) {
                                k[2] = 0x80 | (k[2] & 1); // a denser sub-cluster one page level further down
                            }
                            writes.insert(k, Some(vec![1u8; 8]));
                        }
                    }
                }
            }
            let sess = db.begin_session(SessionParams::default());
            let actuals: Vec<(Key, KeyReadWrite)> = writes.iter().map(|(k, v)| (*k, KeyReadWrite::Write(v.clone()))).collect();
            let fin = match sess.finish(actuals) {
                Ok(f) => f,
                Err(e) => {
                    out.fail(format!("C10 finish failed: {e:#}"));
                    break;
                }
            };
            if let Err(e) = fin.commit(&db) {
                // bucket exhaustion is a legitimate refusal on tables this small
                out.count("lookup_commit_refused");
                let _ = e;
                break;
            }
            for (k, v) in &writes {
                if v.is_some() {
                    present.insert(*k, ());
                } else {
                    present.remove(k);
                }
            }
            // ---- read the table back
            let ht = match std::fs::read(format!("{dir}/ht")) {
                Ok(b) => b,
                Err(_) => break,
            };
            let nb = n as usize;
            let meta_pages = (nb + 4095) / 4096;
            if ht.len() < (meta_pages + nb) * 4096 {
                out.fail(format!("C16 ht file shorter than its layout ({} bytes, {nb} buckets)", ht.len()));
                break;
            }
            let meta: Vec<u8> = ht[..nb].to_vec();
            let label = |b: usize| -> [u8; 32] {
                let o = (meta_pages + b) * 4096 + 4096 - 32;
                let mut l = [0u8; 32];
                l.copy_from_slice(&ht[o..o + 32]);
                l
            };
            let full: Vec<usize> = (0..nb).filter(|&b| meta[b] & 0x80 != 0).collect();
            out.add("lookup_full_buckets", full.len() as u64);
            out.add("lookup_tombstones", meta.iter().filter(|&&m| m == 0x7f).count() as u64);
            if full.len() > budget {
                out.count("lookup_load_above_70pct");
            }
            let mut queries: Vec<([u8; 32], bool)> = full.iter().map(|&b| (label(b), true)).collect();
            // absent pages: children of stored pages and random ids
            for _ in 0..6 {
                queries.push((gen_page_id(&mut r).encode(), false));
            }
            for (raw, _) in queries {
                let hash = hash_raw_page_id(raw, &cfg.seed);
                let mine: Vec<u32> = full.iter().filter(|&&b| label(b) == raw).map(|&b| b as u32).collect();
                let op = format!("pslookup {hash} {} {}", hex(&meta), list_str(&mine));
                let Some(page_id) = label_page_id(&raw) else {
                    out.fail(format!("C16 bucket label {} is not the encoding of a page id", hex(&raw)));
                    continue;
                };
                if page_id.encode() != raw {
                    out.fail(format!("C16 bucket label {} does not re-encode to itself", hex(&raw)));
                    continue;
                }
                let got = db.verif_load_page(page_id.clone());
                match got {
                    Err(e) => {
                        out.line(op, "error".into());
                        out.fail(format!("C10 load_page failed: {e:#}"));
                    }
                    Ok(None) => {
                        if std::env::var("VH_DEBUG_LOOKUP").is_ok() && !mine.is_empty() {
                            let pid = label_page_id(&raw).unwrap();
                            eprintln!("DEBUG raw={} reenc={} depth={} probe={:?}", hex(&raw), hex(&pid.encode()), pid.depth(), probe_results(&meta, &pid, &cfg.seed, 6));
                        }
                        out.line(op, "none".into());
                        if !mine.is_empty() {
                            out.fail(format!("C10 a stored merkle page (bucket {}, {n} buckets, round {round}) is not found by Store::load_page: reopening would lose it", mine[0]));
                        }
                    }
                    Ok(Some((page, b))) => {
                        out.line(op.clone(), format!("some {b}"));
                        if !mine.contains(&(b as u32)) {
                            out.fail(format!("C10 Store::load_page returned bucket {b} which does not hold the page"));
                        } else {
                            let o = (meta_pages + b as usize) * 4096;
                            if page[..] != ht[o..o + 4096] {
                                out.fail(format!("C10 Store::load_page returned other bytes than bucket {b} holds on disk"));
                            }
                        }
                        // the interesting cases: another page with OUR 7-bit tag lies on the probe path before the hit
                        // (the first possible hit is not the page: the caller has to retry)
                        let first_hit = probe_results(&meta, &page_id, &cfg.seed, 2 * nb + 4).into_iter().find(|(k, _)| *k == 'H').map(|(_, b)| b);
                        if first_hit != Some(b) {
                            out.count("lookup_retry_needed");
                        }
                        out.nontrivial(&op);
                    }
                }
                out.count("lookups");
            }
            if mine_dups(&full, &label) {
                out.fail(format!("C19 one page is stored in two buckets ({n} buckets, round {round})"));
            }
        }
        drop(db);
        let _ = std::fs::remove_dir_all(&dir);
    }
}

/// The page id a bucket label (`PageId::encode`: for every level `word += child + 1; word <<= 6`) stands for.
/// (`PageId::decode` of nomt-core is NOT the inverse of `encode` — it expects the sum without the trailing shift —
/// and is used by nothing but its own unit tests; see DESIGN.md.)
fn label_page_id(raw: &[u8; 32]) -> Option<PageId> {
    if raw[..16].iter().any(|&b| b != 0) {
        return None; // deeper than the tables of this run ever get
    }
    let mut v = u128::from_be_bytes(raw[16..].try_into().unwrap());
    if v & 63 != 0 {
        return None;
    }
    v >>= 6;
    let mut path = Vec::new();
    while v > 0 {
        v -= 1;
        path.push((v & 63) as u8);
        v >>= 6;
    }
    path.reverse();
    let mut p = ROOT_PAGE_ID;
    for c in path {
        p = p.child_page_id(ChildPageIndex::new(c)?).ok()?;
    }
    Some(p)
}

fn mine_dups(full: &[usize], label: &dyn Fn(usize) -> [u8; 32]) -> bool {
    let mut seen = std::collections::BTreeSet::new();
    full.iter().any(|&b| !seen.insert(label(b)))
}
