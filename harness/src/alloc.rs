//! C19 / C17 / C05: the real free list (`beatree/allocator/free_list.rs`, driven exactly as one sync drives it:
//! `SyncAllocator::allocate` per allocation index, then `SyncFinisher::finish`) and the real bitbox probing
//! (`ProbeSequence`, `allocate_bucket`) on generated inputs, through `nomt::verif_api` (cfg nomt_verif).
//! Every step emits one protocol line for the Lean driver's `alloc` mode (free-list model / probing model) and is
//! checked against harness-side oracles that do not depend on the model:
//!   * conservation (C19): tracked pages and live pages partition [1, bump) before and after every sync;
//!   * allocation (C17/C19): `allocate` hands out only pages free at the start of the sync or beyond the frontier;
//!   * placement (C17): no free-list page is written at a page number the previous state uses (its live pages and
//!     the pages holding its free list);
//!   * encoding (C16): the pages handed to the writer decode to the portions of the new list, linked head to tail.
use crate::util::*;
use nomt::verif_api::{allocate_bucket, hash_raw_page_id, probe_results, FreeListSim};
use nomt_core::page_id::{ChildPageIndex, PageId, ROOT_PAGE_ID};
use std::collections::BTreeSet;

const CAP: usize = 1022;

fn list_str(v: &[u32]) -> String {
    if v.is_empty() {
        "-".into()
    } else {
        v.iter().map(|x| x.to_string()).collect::<Vec<_>>().join(".")
    }
}

/// Rust order (tail first, items bottom first) -> model order (head first, items top first)
fn portions_str(p: &[(u32, Vec<u32>)]) -> String {
    if p.is_empty() {
        return "-".into();
    }
    p.iter()
        .rev()
        .map(|(pn, items)| {
            let rev: Vec<u32> = items.iter().rev().cloned().collect();
            format!("{}:{}", pn, list_str(&rev))
        })
        .collect::<Vec<_>>()
        .join(";")
}

fn tracked(p: &[(u32, Vec<u32>)]) -> BTreeSet<u32> {
    p.iter().flat_map(|(pn, items)| std::iter::once(*pn).chain(items.iter().cloned())).collect()
}

pub fn run_freelist(seed: u64, cases: usize, out: &mut Sink) {
    let mut rng = Rng::new(seed ^ 0xF1EE);
    for case in 0..cases {
        let mut r = rng.fork();
        // ---- a well-shaped start state
        let full = *r.pick(&[0usize, 0, 1, 1, 1, 2, 3]);
        let shape = r.below(10);
        let (head_len, fragmented) = match shape {
            0 => (0usize, false), // no head beyond the full portions (or an empty list)
            1 => (1, false),
            2 => (2, false),
            3 => (CAP - 1, false),
            4 => (CAP, false),
            5 => (1, full >= 1), // fragmented: head with one item over a portion with CAP-1 items
            _ => (r.range(1, CAP), false),
        };
        let mut sizes: Vec<usize> = vec![CAP; full];
        if fragmented {
            let l = sizes.len();
            sizes[l - 1] = CAP - 1;
        }
        if head_len > 0 {
            sizes.push(head_len);
        }
        let n_tracked: usize = sizes.iter().map(|s| s + 1).sum();
        let n_live = r.range(0, 2500);
        let bump0 = (1 + n_tracked + n_live) as u32;
        // a random permutation of 1..bump0
        let mut pns: Vec<u32> = (1..bump0).collect();
        for i in (1..pns.len()).rev() {
            let j = r.below(i + 1);
            pns.swap(i, j);
        }
        let mut it = pns.into_iter();
        let portions: Vec<(u32, Vec<u32>)> = sizes.iter().map(|&s| (it.next().unwrap(), (0..s).map(|_| it.next().unwrap()).collect())).collect();
        let mut live: BTreeSet<u32> = it.collect();
        let mut sim = FreeListSim::new(portions, bump0);
        out.mark_case(format!("case {case} freelist full={full} head={head_len} fragmented={fragmented} live={n_live}"));
        let rounds = 6;
        for round in 0..rounds {
            let before = sim.portions();
            let bump = sim.bump();
            let len = sim.len();
            let head = before.last().map(|p| p.1.len()).unwrap_or(0);
            // ---- how many pages this sync allocates and frees: around the interesting boundaries
            let a_choices = [0usize, 0, 1, 2, head.saturating_sub(1), head, head + 1, head + CAP, len.saturating_sub(1), len, len + 1, len + 3, r.range(0, 12), r.range(0, len + 5)];
            let a = *r.pick(&a_choices);
            let room = (CAP - head.min(CAP)) % CAP;
            let f_choices = [0usize, 0, 1, 2, room.saturating_sub(1), room, room + 1, room + CAP, r.range(0, 8), r.range(0, 2100)];
            let f = (*r.pick(&f_choices)).min(live.len());
            // the freed pages: live ones
            let lv: Vec<u32> = live.iter().cloned().collect();
            let mut freed: Vec<u32> = Vec::new();
            let mut chosen = BTreeSet::new();
            while freed.len() < f {
                let x = lv[r.below(lv.len())];
                if chosen.insert(x) {
                    freed.push(x);
                }
            }
            let old_tracked = tracked(&before);
            let old_list_pages: BTreeSet<u32> = before.iter().map(|p| p.0).collect();
            let old_items: BTreeSet<u32> = before.iter().flat_map(|p| p.1.iter().cloned()).collect();
            let op = format!("flfinish {CAP} {bump} {} {a} {}", portions_str(&before), list_str(&freed));
            let res = std::panic::catch_unwind(std::panic::AssertUnwindSafe(|| {
                let handed: Vec<u32> = (0..a).map(|i| sim.allocate(i)).collect();
                let written = sim.finish(a, freed.clone());
                (handed, written)
            }));
            out.count("fl_rounds");
            match res {
                Err(_) => {
                    out.line(op.clone(), "panic".into());
                    out.fail(format!("C19 free list panicked: {}", &op[..op.len().min(300)]));
                    break;
                }
                Ok((handed, written)) => {
                    let after = sim.portions();
                    let wl: Vec<u32> = written.iter().map(|w| w.0).collect();
                    out.line(op.clone(), format!("ok alloc={} bump={} written={} portions={}", list_str(&handed), sim.bump(), list_str(&wl), portions_str(&after)));
                    let brief = format!("case {case} round {round} head={head} len={len} allocations={a} freed={f}");
                    // ---- allocation oracle
                    let mut seen = BTreeSet::new();
                    for &h in &handed {
                        if !(old_items.contains(&h) || h >= bump) {
                            out.fail(format!("C17 allocate handed out page {h} which was neither free nor beyond the frontier ({brief})"));
                        }
                        if !seen.insert(h) {
                            out.fail(format!("C19 allocate handed out page {h} twice ({brief})"));
                        }
                    }
                    // ---- placement oracle: where the new free-list pages go
                    for &w in &wl {
                        if old_list_pages.contains(&w) {
                            out.fail(format!("C17 free-list page {w} of the previous state is overwritten in place before the switch-over ({brief})"));
                        } else if live.contains(&w) {
                            out.fail(format!("C17 free-list page written over live page {w} ({brief})"));
                        } else if seen.contains(&w) {
                            out.fail(format!("C19 page {w} handed out to the tree and used for the free list in the same sync ({brief})"));
                        } else if !(old_items.contains(&w) || w >= bump) {
                            out.fail(format!("C17 free-list page {w} written to a page that was not free ({brief})"));
                        }
                    }
                    // ---- conservation
                    for h in &handed {
                        live.insert(*h);
                    }
                    for x in &freed {
                        live.remove(x);
                    }
                    let new_tracked = tracked(&after);
                    let n_after: usize = after.iter().map(|p| p.1.len() + 1).sum();
                    if new_tracked.len() != n_after {
                        out.fail(format!("C19 a page number occurs twice in the free list ({brief})"));
                    }
                    let nb = sim.bump();
                    let both: Vec<&u32> = new_tracked.intersection(&live).take(3).collect();
                    if !both.is_empty() {
                        out.fail(format!("C19 pages both free and in use after the sync: {both:?} ({brief})"));
                    }
                    let total = new_tracked.len() + live.len();
                    let in_range = new_tracked.iter().chain(live.iter()).all(|&p| p >= 1 && p < nb);
                    if !in_range || total != (nb as usize - 1) {
                        out.fail(format!("C19 pages leaked or out of range after the sync: tracked {} + live {} != bump-1 {} ({brief})", new_tracked.len(), live.len(), nb - 1));
                    }
                    // ---- encoding: every written page is a portion of the new list with the right link, and every
                    // portion that is new or changed was written
                    for (pn, prev, items) in &written {
                        match after.iter().position(|p| p.0 == *pn) {
                            None => out.fail(format!("C16 written free-list page {pn} is not part of the new list ({brief})")),
                            Some(i) => {
                                let want_prev = if i == 0 { 0 } else { after[i - 1].0 };
                                if after[i].1 != *items || *prev != want_prev {
                                    // a page may be encoded more than once; the LAST encoding must be the final one
                                    let last = written.iter().rev().find(|w| w.0 == *pn).unwrap();
                                    if last.2 != after[i].1 || last.1 != want_prev {
                                        out.fail(format!("C16 written free-list page {pn} does not hold the new portion ({brief})"));
                                    }
                                }
                            }
                        }
                    }
                    for (i, p) in after.iter().enumerate() {
                        let unchanged = before.get(i).map_or(false, |q| q == p) && (i == 0 || before.get(i - 1).map(|q| q.0) == Some(after[i - 1].0));
                        if !unchanged && !wl.contains(&p.0) {
                            out.fail(format!("C16 portion {} of the new free list is new or changed but was not written ({brief})", p.0));
                        }
                    }
                    let _ = old_tracked;
                    out.count(&format!("fl_head_{}", if head == 0 { "none" } else if head == 1 { "1" } else if head >= CAP - 1 { "full" } else { "mid" }));
                    if !wl.is_empty() {
                        out.nontrivial(&op);
                    }
                    if out.samples.len() < 3 {
                        let mut s = format!("{op}");
                        s.truncate(200);
                        out.samples.push(s);
                    }
                }
            }
        }
    }
}

fn gen_page_id(r: &mut Rng) -> PageId {
    let mut p = ROOT_PAGE_ID;
    let depth = r.below(8);
    for _ in 0..depth {
        let idx = ChildPageIndex::new(r.below(64) as u8).unwrap();
        p = p.child_page_id(idx).unwrap();
    }
    p
}

pub fn run_probe(seed: u64, cases: usize, out: &mut Sink) {
    let mut rng = Rng::new(seed ^ 0x9B0BE);
    for case in 0..cases {
        let mut r = rng.fork();
        let n = *r.pick(&[1usize, 2, 3, 4, 5, 7, 8, 10, 16, 31, 64, 100, 257, 1024, 4096, 5000]);
        let mut seed16 = [0u8; 16];
        seed16.copy_from_slice(&r.bytes32()[..16]);
        let pid = gen_page_id(&mut r);
        let raw = pid.encode();
        let hash = hash_raw_page_id(raw, &seed16);
        let tag = 0x80u8 | (hash >> 57) as u8;
        // ---- meta bytes
        let style = r.below(8);
        let mut meta = vec![0u8; n];
        for b in meta.iter_mut() {
            let rt = 0x80 | (r.below(128) as u8);
            *b = match style {
                0 => 0,                                                   // all empty
                1 => 0x7f,                                                // all tombstones
                2 => tag,                                                 // all full with OUR tag (possible hits everywhere)
                3 => 0x80 | (r.below(128) as u8),                         // all full, random tags
                4 => *r.pick(&[0x7fu8, tag, rt]), // no empty bucket
                5 => if r.chance(1, 20) { 0 } else { 0x80 | (r.below(128) as u8) }, // dense
                6 => if r.chance(1, 2) { 0 } else { *r.pick(&[0x7fu8, tag, rt]) },
                _ => if r.chance(9, 10) { 0 } else { 0x80 | (r.below(128) as u8) }, // sparse
            };
        }
        out.mark_case(format!("case {case} probe n={n} style={style}"));
        out.line(format!("pshash {} {}", hex(&seed16), hex(&raw)), hash.to_string());
        let count = (2 * n + 6).min(80);
        let res = probe_results(&meta, &pid, &seed16, count);
        let shown: Vec<String> = res.iter().map(|(k, b)| if *k == 'X' { "X".to_string() } else { format!("{k}{b}") }).collect();
        let op = format!("psnext {hash} {count} {}", hex(&meta));
        out.line(op.clone(), shown.join(" "));
        // oracle: every reported bucket is in range and of the reported kind
        for (k, b) in &res {
            let ok = match k {
                'E' => meta[*b as usize] == 0,
                'T' => meta[*b as usize] == 0x7f,
                'H' => meta[*b as usize] == tag,
                _ => true,
            };
            if !ok || (*k != 'X' && *b as usize >= n) {
                out.fail(format!("C05 probe result {k}{b} does not match the meta byte (n={n} style={style})"));
            }
        }
        let mut m2 = meta.clone();
        let got = allocate_bucket(&mut m2, &pid, &seed16);
        out.line(format!("psalloc {hash} {}", hex(&meta)), match got { Some(b) => format!("some {b}"), None => "none".into() });
        if let Some(b) = got {
            let b = b as usize;
            if !(meta[b] == 0 || meta[b] == 0x7f) {
                out.fail(format!("C19 allocate_bucket took bucket {b} which was full (n={n} style={style})"));
            }
            if m2[b] != tag || m2.iter().zip(meta.iter()).enumerate().any(|(i, (x, y))| i != b && x != y) {
                out.fail(format!("C19 allocate_bucket changed the wrong meta bytes (n={n} style={style})"));
            }
        } else if n <= 2000 && meta.iter().all(|&x| x == 0) {
            out.fail(format!("C19 allocate_bucket gave up on an all-empty table (n={n})"));
        }
        out.count(&format!("probe_style_{style}"));
        if res.iter().any(|(k, _)| *k == 'H' || *k == 'T') {
            out.nontrivial(&op);
        }
        if out.samples.len() < 3 {
            let mut s = op.clone();
            s.truncate(160);
            out.samples.push(s);
        }
    }
}
