//! C15 (Lean `Props/C15_Locks3.lean`): `begin_session` must take the access read guard BEFORE it opens the beatree
//! read transaction of the rollback delta builder.  Directed schedule on the real `Nomt` (rollback enabled):
//!
//!   main     : session W, write K = v2, `finish` (its guard is gone)      -> FinishedSession `fin`
//!   main     : `begin_session` -> S1 (read guard + read transaction of its delta builder)
//!   writer   : `fin.commit(&nomt)` (blocking)  -> parking_lot sets WRITER_BIT, parks until S1 ends
//!   main     : sleeps 200 ms (writer is parked)
//!   reader   : `begin_session` -> queues behind the parked writer (parking_lot `read()` does not pass a waiting writer)
//!   main     : sleeps 200 ms, drops S1
//!   writer   : gets the write lock, commits, the sync waits for the live read transactions to end
//!   reader   : gets its guard after the commit, sees the NEW state
//!
//! With the source's order (guard first) the queued reader owns no read transaction while it waits: the run ends.
//! With the order inverted (read transaction first) the sync inside the commit waits for the reader's transaction
//! and the reader waits for the writer's lock: a deadlock, which the parent's watchdog reports.
//! No thread that owns a live Session performs a blocking acquisition here (the F19 pattern is not involved):
//! the main thread only sleeps and drops S1.
use crate::db::DbCfg;
use crate::util::*;
use nomt::hasher::Blake3Hasher;
use nomt::{KeyReadWrite, Nomt, SessionParams};
use std::io::{Read, Write};
use std::sync::Arc;
use std::time::{Duration, Instant};

type Db = Nomt<Blake3Hasher>;

const K0: [u8; 32] = [0x11; 32];
const K: [u8; 32] = [0x77; 32];
const V1: &[u8] = b"rtlock-v1";
const V2: &[u8] = b"rtlock-v2";
const WATCHDOG_MS: u64 = 10_000;

fn arg(args: &[String], name: &str) -> Option<String> {
    args.iter().position(|a| a == name).and_then(|i| args.get(i + 1).cloned())
}

fn stage(s: &str) {
    // progress on stderr (unbuffered): the parent quotes the last stage when the watchdog fires
    let _ = writeln!(std::io::stderr(), "stage {s}");
}

fn scenario(dir: &str, park_ms: u64) -> Result<(), String> {
    let mut rng = Rng::new(1);
    let mut cfg = DbCfg::gen(&mut rng);
    cfg.buckets = 4096;
    cfg.workers = 1;
    cfg.rollback = true;
    let db: Arc<Db> = Arc::new(Db::open(cfg.options(dir)).map_err(|e| format!("open: {e:#}"))?);
    // state A: a non-trivial store (K0 and K present, one rollback delta in the log)
    {
        let s = db.begin_session(SessionParams::default());
        let fin = s
            .finish(vec![(K0, KeyReadWrite::Write(Some(V1.to_vec()))), (K, KeyReadWrite::Write(Some(V1.to_vec())))])
            .map_err(|e| format!("finish A: {e:#}"))?;
        fin.commit(&*db).map_err(|e| format!("commit A: {e:#}"))?;
    }
    let root_a = db.root();
    stage("state-A");
    // the writer's changeset, prepared by a session that is finished (a FinishedSession holds no guard)
    let fin = {
        let w = db.begin_session(SessionParams::default());
        w.warm_up(K);
        w.preserve_prior_value(K);
        w.finish(vec![(K, KeyReadWrite::Write(Some(V2.to_vec())))]).map_err(|e| format!("finish W: {e:#}"))?
    };
    let root_b = fin.root();
    if root_b == root_a {
        return Err("the writer's changeset does not change the root".into());
    }
    // S1: read guard + (rollback enabled, record_rollback_delta = default true) the read transaction of its delta builder
    let s1 = db.begin_session(SessionParams::default());
    stage("s1-taken");
    let writer = {
        let db = db.clone();
        std::thread::spawn(move || {
            stage("writer-calls-commit");
            let r = fin.commit(&*db).map_err(|e| format!("{e:#}"));
            stage("writer-commit-returned");
            r
        })
    };
    // let the writer reach `access_lock.write()` (it sets WRITER_BIT and parks)
    std::thread::sleep(Duration::from_millis(park_ms));
    let reader = {
        let db = db.clone();
        std::thread::spawn(move || {
            stage("reader-calls-begin_session");
            let s2 = db.begin_session(SessionParams::default());
            stage("reader-session-taken");
            let v = s2.read(K).map_err(|e| format!("{e:#}"));
            let prev = s2.prev_root();
            let now = db.root();
            drop(s2);
            (v, prev, now)
        })
    };
    // let the reader queue behind the parked writer
    std::thread::sleep(Duration::from_millis(park_ms));
    let seen_by_s1 = s1.read(K).map_err(|e| format!("s1.read: {e:#}"))?;
    if seen_by_s1.as_deref() != Some(V1) {
        return Err(format!("S1 (taken before the commit) reads {seen_by_s1:?} for K, expected state A"));
    }
    if db.root() != root_a {
        return Err("the root moved while S1 was alive (the blocking commit did not wait for S1)".into());
    }
    stage("main-drops-s1");
    drop(s1);
    let wres = writer.join().map_err(|_| "writer thread panicked".to_string())?;
    stage("writer-joined");
    let (v, prev, now) = reader.join().map_err(|_| "reader thread panicked".to_string())?;
    stage("reader-joined");
    wres.map_err(|e| format!("the writer's blocking commit failed: {e}"))?;
    let v = v.map_err(|e| format!("reader: session read failed: {e}"))?;
    if v.as_deref() != Some(V2) {
        return Err(format!("the session queued behind the commit reads {v:?} for K, expected the committed value v2"));
    }
    if prev != root_b {
        return Err("the session queued behind the commit has a prev_root other than the root of the commit".into());
    }
    if now != root_b || db.root() != root_b {
        return Err("Nomt::root() is not the root of the commit".into());
    }
    if db.is_poisoned() {
        return Err("the handle is poisoned".into());
    }
    drop(db);
    Ok(())
}

/// `rtlock-child --dir <tmp dir> [--park-ms 200]`: the schedule above, no watchdog of its own (the parent has one).
pub fn child(args: &[String]) -> i32 {
    let dir = arg(args, "--dir").unwrap_or_else(|| format!("/dev/shm/nomt-verif-q45-{}", std::process::id()));
    let park_ms: u64 = arg(args, "--park-ms").and_then(|s| s.parse().ok()).unwrap_or(200);
    let _ = std::fs::remove_dir_all(&dir);
    let r = scenario(&dir, park_ms);
    let _ = std::fs::remove_dir_all(&dir);
    match r {
        Ok(()) => {
            println!("rtlock ok");
            0
        }
        Err(e) => {
            eprintln!("rtlock FAILED: {e}");
            1
        }
    }
}

/// `rtlock-scenarios`: the schedule as a child process under a 10 s watchdog, reported through the sink (C15 corpus run).
pub fn scenarios(out: &mut Sink) {
    let exe = std::env::current_exe().unwrap();
    let dir = format!("/dev/shm/nomt-verif-q45-{}-rtlock", std::process::id());
    out.mark_case("rtlock scenario".into());
    out.count("rtlock_scenario");
    let t0 = Instant::now();
    let spawned = std::process::Command::new(&exe)
        .args(["rtlock-child", "--dir", &dir])
        .stdin(std::process::Stdio::null())
        .stdout(std::process::Stdio::piped())
        .stderr(std::process::Stdio::piped())
        .spawn();
    let mut ch = match spawned {
        Ok(c) => c,
        Err(e) => {
            out.fail(format!("C15 rtlock: the child could not be started: {e}"));
            return;
        }
    };
    let mut status = None;
    while t0.elapsed() < Duration::from_millis(WATCHDOG_MS) {
        match ch.try_wait() {
            Ok(Some(st)) => {
                status = Some(st);
                break;
            }
            Ok(None) => std::thread::sleep(Duration::from_millis(20)),
            Err(_) => break,
        }
    }
    let timed_out = status.is_none();
    if timed_out {
        let _ = ch.kill();
        let _ = ch.wait();
    }
    let (mut so, mut se) = (String::new(), String::new());
    if let Some(mut p) = ch.stdout.take() {
        let _ = p.read_to_string(&mut so);
    }
    if let Some(mut p) = ch.stderr.take() {
        let _ = p.read_to_string(&mut se);
    }
    let _ = std::fs::remove_dir_all(&dir);
    let last_stage = se.lines().filter_map(|l| l.strip_prefix("stage ")).last().unwrap_or("-").to_string();
    out.add("rtlock_child_ms", t0.elapsed().as_millis() as u64);
    if timed_out {
        out.fail(format!(
            "C15 rtlock: watchdog — writer parked in commit + queued begin_session did not finish (read transaction taken before the access guard?) [{WATCHDOG_MS} ms, last stage: {last_stage}]"
        ));
        return;
    }
    match status.and_then(|s| s.code()) {
        Some(0) if so.contains("rtlock ok") => out.nontrivial("rtlock finished"),
        other => {
            let msg: Vec<&str> = se.lines().filter(|l| !l.starts_with("stage ")).collect();
            out.fail(format!("C15 rtlock: child ended with {other:?} (last stage: {last_stage}): {}", msg.join(" | ")));
        }
    }
}
