//! C14 / C12: the commit / rollback PIPELINES of the real code against their Lean mirror (`Api/Pipeline.lean`, driver mode
//! `pipeline`) — a differential on top of the I/O hook H1.
//!
//! Per case: a generated history (session commits, an overlay commit, a rollback) on a fresh store; one **refusal scenario**
//! (stale base through each of the four commit entry points, child overlay before its parent, `try_write` finding a session
//! alive, the rollback log's lock held by another party, rollback beyond the log) with the rollback log inspected afterwards;
//! then a **fault sweep** over one call kind (commit / try-commit / overlay commit / overlay try-commit / rollback): the call
//! is run once fault-free with the hook observing (its ordered event labels `<file>:<Kind>:<site>` go to the model as `pwork`:
//! the model checks that the pipeline can issue them in this order and takes its I/O work from them), then for chosen event
//! indices k — the first occurrence of every distinct label and random others — the directory is put back to the snapshot taken
//! before the call, the same handles are rebuilt, and the call is repeated with event k (once) resp. event k and every later
//! one (persistent) failing with EIO.  Recorded and compared line by line with the model: the result (Ok / Err / handed
//! back), why (poisoned / stale / marker / busy / lock / i-o), `is_poisoned()`, the in-memory root, `sync_seqn()`, the length of
//! the in-memory rollback log, the values the handle serves, the verdict of the next commit attempt and of a `rollback(1)` on
//! the poisoned handle, and after dropping the handle and opening the directory again: root, seqn, log length, every value,
//! a follow-up commit and a rollback.
//!
//! Oracles independent of the model (BTreeMap stack + reference trie): C14 an injected failure is reported (`Err`) and poisons;
//! `Ok` only without an injected failure; a poisoned handle refuses the next commit; the reopened directory shows exactly the
//! state before or after the call (all values, root, seqn from the same side); C12 a refused call leaves root / seqn / values /
//! log length unchanged.
use crate::db::{vhash, DbCfg, Map, Val};
use crate::iohook::{self, Loss, Mode};
use crate::util::*;
use nomt::hasher::Blake3Hasher;
use nomt::{FinishedSession, KeyReadWrite, Nomt, Overlay, Session, SessionParams};
use std::collections::{BTreeMap, HashMap};
use std::panic::{catch_unwind, AssertUnwindSafe};

type Db = Nomt<Blake3Hasher>;
type Writes = Vec<(Key, Option<Val>)>;

fn arg(args: &[String], name: &str) -> Option<String> {
    args.iter().position(|a| a == name).and_then(|i| args.get(i + 1).cloned())
}

struct FinI {
    fin: Option<FinishedSession>,
    writes: Writes,
    base: Map,
}
struct OvI {
    ov: Option<Overlay>,
    view: Map,
    base: Map,
    writes: Writes,
}
#[derive(Clone)]
struct Oracle {
    cur: Map,
    seqn: u32,
    /// the states before each of the last <= maxlog commits, newest last
    hist: Vec<Map>,
}
struct Snap {
    path: String,
    or: Oracle,
}
#[derive(Clone, Debug)]
struct Obs {
    res: &'static str,
    why: String,
    poisoned: bool,
    injected: u64,
    labels: Vec<String>,
    failed_label: Option<String>,
}

struct Eng<'a> {
    out: &'a mut Sink,
    rng: Rng,
    cfg: DbCfg,
    dir: String,
    db: Option<Db>,
    sess: BTreeMap<usize, Session<Blake3Hasher>>,
    fins: BTreeMap<usize, FinI>,
    ovs: BTreeMap<usize, OvI>,
    next_id: usize,
    or: Oracle,
    /// a faulted call happened: the oracle knows the state before and after; reopening decides
    limbo: Option<(Oracle, Oracle)>,
    universe: Vec<Key>,
    snaps: HashMap<String, Snap>,
    desc: String,
    /// `--allow-warmup-pairs`: keep two sessions alive at once also when that can exhaust the warm-up pool
    pairs_alive: bool,
    /// values of 2..9 KiB half of the time (overflow pages, file growth; with 8 KiB rollback segments: one segment per delta)
    fat: bool,
}

fn apply(m: &Map, ws: &Writes) -> Map {
    let mut m = m.clone();
    for (k, v) in ws {
        match v {
            Some(v) => {
                m.insert(*k, v.clone());
            }
            None => {
                m.remove(k);
            }
        }
    }
    m
}
fn root_of(m: &Map) -> String {
    hex(&ref_root(&m.iter().map(|(k, v)| (*k, vhash(v))).collect::<Vec<_>>()))
}
fn copy_db(src: &str, dst: &str) -> std::io::Result<()> {
    let _ = std::fs::remove_dir_all(dst);
    std::fs::create_dir_all(dst)?;
    for ent in std::fs::read_dir(src)? {
        let ent = ent?;
        let name = ent.file_name().to_string_lossy().to_string();
        if name == "meta" || name == "ln" || name == "bbn" || name == "ht" || name == "wal" || name.starts_with("rollback.") {
            crate::image::sparse_copy(&ent.path(), std::path::Path::new(&format!("{dst}/{name}")))?;
        }
    }
    Ok(())
}

impl<'a> Eng<'a> {
    fn fresh(&mut self) -> usize {
        self.next_id += 1;
        self.next_id
    }
    fn loglen(&self) -> usize {
        self.db.as_ref().unwrap().verif_rollback_view().map(|v| v.log.len()).unwrap_or(0)
    }
    fn open_db(&mut self) -> bool {
        let t0 = std::time::Instant::now();
        loop {
            let o = self.cfg.options(&self.dir);
            match catch_unwind(AssertUnwindSafe(|| Db::open(o))) {
                Ok(Ok(db)) => {
                    self.db = Some(db);
                    return true;
                }
                Ok(Err(e)) => {
                    let msg = format!("{e:#}");
                    if msg.contains("lock") && t0.elapsed().as_millis() < 5000 {
                        self.out.count("open_retried_lock_still_held");
                        std::thread::sleep(std::time::Duration::from_millis(2));
                        continue;
                    }
                    self.out.fail(format!("C14 directory does not reopen: {msg} :: {}", self.desc));
                    return false;
                }
                Err(_) => {
                    self.out.fail(format!("C14 open panicked :: {}", self.desc));
                    return false;
                }
            }
        }
    }
    fn drop_all(&mut self) {
        self.sess.clear();
        self.fins.clear();
        self.ovs.clear();
        self.db = None;
    }

    // ---- read-only / handle-building lines (as in the `api` protocol) ----
    fn begin(&mut self, chain: &[usize]) -> usize {
        let sid = self.fresh();
        let ids = if chain.is_empty() { "-".to_string() } else { chain.iter().map(|i| i.to_string()).collect::<Vec<_>>().join(",") };
        let refs: Vec<&Overlay> = chain.iter().filter_map(|i| self.ovs.get(i).and_then(|o| o.ov.as_ref())).collect();
        match SessionParams::default().overlay(refs) {
            Ok(p) => {
                let s = self.db.as_ref().unwrap().begin_session(p);
                self.sess.insert(sid, s);
                self.out.line(format!("begin {sid} {ids}"), "ok".into());
            }
            Err(e) => self.out.line(format!("begin {sid} {ids}"), format!("err {e:?}")),
        }
        sid
    }
    fn finish(&mut self, sid: usize, base: Map, writes: Writes) -> usize {
        let fid = self.fresh();
        let mut ws = writes.clone();
        ws.sort_by(|a, b| a.0.cmp(&b.0));
        let s = self.sess.remove(&sid).expect("session");
        let actuals: Vec<(Key, KeyReadWrite)> = ws.iter().map(|(k, v)| (*k, KeyReadWrite::Write(v.clone()))).collect();
        let wtxt = if ws.is_empty() {
            "-".to_string()
        } else {
            ws.iter().map(|(k, v)| format!("{}:{}", hex(k), v.as_ref().map(|v| hex(&vhash(v))).unwrap_or("-".into()))).collect::<Vec<_>>().join(",")
        };
        match catch_unwind(AssertUnwindSafe(|| s.finish(actuals))) {
            Ok(Ok(fin)) => {
                let r = hex(&fin.root().into_inner());
                let expect = root_of(&apply(&base, &ws));
                if r != expect {
                    self.out.fail(format!("C02 finished session root {r} != reference {expect} :: {}", self.desc));
                }
                self.fins.insert(fid, FinI { fin: Some(fin), writes: ws, base });
                self.out.line(format!("finish {sid} {fid} {wtxt}"), r);
            }
            Ok(Err(e)) => self.out.line(format!("finish {sid} {fid} {wtxt}"), format!("finish-error {e:#}")),
            Err(_) => self.out.line(format!("finish {sid} {fid} {wtxt}"), "panic".into()),
        }
        fid
    }
    fn overlay(&mut self, fid: usize) -> usize {
        let oid = self.fresh();
        let f = self.fins.remove(&fid).expect("fin");
        let ov = f.fin.unwrap().into_overlay();
        let r = hex(&ov.root().into_inner());
        let view = apply(&f.base, &f.writes);
        self.ovs.insert(oid, OvI { ov: Some(ov), view, base: f.base, writes: f.writes });
        self.out.line(format!("overlay {fid} {oid}"), r);
        oid
    }
    fn sdrop(&mut self, sid: usize) {
        self.sess.remove(&sid);
        self.out.line(format!("sdrop {sid}"), "ok".into());
    }
    fn observe(&mut self, keys: &[Key]) {
        let db = self.db.as_ref().unwrap();
        let r = hex(&db.root().into_inner());
        let q = db.sync_seqn();
        self.out.line("root".into(), r);
        self.out.line("seqn".into(), q.to_string());
        for k in keys {
            let v = match self.db.as_ref().unwrap().read(*k) {
                Ok(v) => v.map(|v| hex(&vhash(&v))).unwrap_or("-".into()),
                Err(e) => format!("read-error {e:#}"),
            };
            self.out.line(format!("dread {}", hex(k)), v);
        }
    }
    /// C12: the handle shows exactly the oracle's state
    fn check_unchanged(&mut self, what: &str) {
        let db = self.db.as_ref().unwrap();
        let r = hex(&db.root().into_inner());
        if r != root_of(&self.or.cur) || db.sync_seqn() != self.or.seqn {
            self.out.fail(format!("C12 {what}: root / seqn changed (root {r} seqn {}) :: {}", db.sync_seqn(), self.desc));
        }
        if self.cfg.rollback && self.loglen() != self.or.hist.len() {
            self.out.fail(format!("C12 {what}: the in-memory rollback log holds {} deltas, expected {} :: {}", self.loglen(), self.or.hist.len(), self.desc));
        }
        for k in self.universe.clone() {
            let v = self.db.as_ref().unwrap().read(k).ok().flatten();
            if v.as_ref() != self.or.cur.get(&k) {
                self.out.fail(format!("C12 {what}: value of {} changed :: {}", hex(&k), self.desc));
            }
        }
    }

    // ---- the five pipelines ----
    /// `fault`: (relative event index, persistent)
    fn pcall(&mut self, kind: &str, id: usize, fault: Option<(u64, bool)>, rblock: bool) -> Obs {
        self.pcall_x(kind, id, fault, rblock, false)
    }
    /// `finish_fail`: the `Session::finish` inside `rollback` fails (injected through the step hook)
    fn pcall_x(&mut self, kind: &str, id: usize, fault: Option<(u64, bool)>, rblock: bool, finish_fail: bool) -> Obs {
        let base = iohook::begins();
        let log_pos = iohook::log_len();
        *FAIL_STEP.lock().unwrap() = if finish_fail { Some("session_finish") } else { None };
        let inj0 = iohook::failed_injected();
        if std::env::var("VH_PIPE_DEBUG").is_ok() {
            eprintln!("pcall {kind} {id} fault={fault:?} rblock={rblock} (ops line {})", self.out.ops.len());
        }
        if let Some((k, pers)) = fault {
            iohook::set_mode(Mode::FailAt(base + k, pers));
        }
        let db = self.db.as_ref().unwrap();
        let was_poisoned = db.is_poisoned();
        // what the oracle expects of a successful call
        let mut post = self.or.clone();
        let mut handed_back_fin: Option<FinishedSession> = None;
        let mut handed_back_ov: Option<Overlay> = None;
        let result: Result<Result<bool, anyhow::Error>, ()> = match kind {
            "commit" | "trycommit" => {
                let f = self.fins.get_mut(&id).expect("fin");
                let fin = f.fin.take().expect("fin present");
                post.cur = apply(&f.base, &f.writes);
                let r = catch_unwind(AssertUnwindSafe(|| {
                    if kind == "commit" {
                        fin.commit(db).map(|_| true)
                    } else if rblock {
                        db.verif_with_rollback_lock(1, || fin.try_commit_nonblocking(db)).map(|o| match o {
                            Some(f) => {
                                handed_back_fin = Some(f);
                                false
                            }
                            None => true,
                        })
                    } else {
                        fin.try_commit_nonblocking(db).map(|o| match o {
                            Some(f) => {
                                handed_back_fin = Some(f);
                                false
                            }
                            None => true,
                        })
                    }
                }));
                r.map_err(|_| ())
            }
            "ocommit" | "otrycommit" => {
                let o = self.ovs.get_mut(&id).expect("overlay");
                let ov = o.ov.take().expect("overlay present");
                post.cur = apply(&o.base, &o.writes);
                let r = catch_unwind(AssertUnwindSafe(|| {
                    if kind == "ocommit" {
                        ov.commit(db).map(|_| true)
                    } else {
                        ov.try_commit_nonblocking(db).map(|o| match o {
                            Some(f) => {
                                handed_back_ov = Some(f);
                                false
                            }
                            None => true,
                        })
                    }
                }));
                r.map_err(|_| ())
            }
            "rollback" => {
                let n = id;
                if n >= 1 && n <= post.hist.len() {
                    post.cur = post.hist[post.hist.len() - n].clone();
                    let l = post.hist.len();
                    post.hist.truncate(l - n);
                }
                catch_unwind(AssertUnwindSafe(|| db.rollback(n).map(|_| true))).map_err(|_| ())
            }
            _ => unreachable!(),
        };
        if kind != "rollback" {
            post.hist.push(self.or.cur.clone());
            while post.hist.len() > self.cfg.maxlog as usize {
                post.hist.remove(0);
            }
            if !self.cfg.rollback {
                post.hist.clear();
            }
        }
        if !(kind == "rollback" && id == 0) {
            post.seqn += 1;
        }
        iohook::set_mode(Mode::Observe);
        *FAIL_STEP.lock().unwrap() = None;
        // let the tasks the call did not wait for (it returned early with the error) come to rest: `Sync::sync` returns from
        // `bitbox_sync.wait_pre_meta()?` without joining the beatree task, from `bitbox_sync.post_meta()?` without joining the
        // rollback prune task
        if fault.is_some() {
            quiesce();
        }
        let labels = iohook::labels_since(base);
        let seq = iohook::seq_from(log_pos);
        let injected = iohook::failed_injected() - inj0;
        let failed_label = if injected > 0 { fault.and_then(|(k, _)| labels.get(k as usize).cloned()) } else { None };
        if let Some(f) = handed_back_fin {
            self.fins.get_mut(&id).unwrap().fin = Some(f);
        }
        if let Some(o) = handed_back_ov {
            self.ovs.get_mut(&id).unwrap().ov = Some(o);
        }
        let db = self.db.as_ref().unwrap();
        let poisoned = db.is_poisoned();
        let (res, why): (&'static str, String) = match &result {
            Err(()) => ("panic", "panic".into()),
            Ok(Ok(true)) => ("ok", "-".into()),
            Ok(Ok(false)) => ("busy", if rblock { "rblock".into() } else { "busy".into() }),
            Ok(Err(e)) => {
                let m = format!("{e:#}");
                let why = if m.contains("poisoned") {
                    "poisoned"
                } else if m.contains("no longer valid") {
                    "stale"
                } else if m.contains("parent not committed") {
                    "marker"
                } else if m.contains("rollback:") {
                    "refused"
                } else if finish_fail {
                    "finish"
                } else if injected > 0 {
                    "io"
                } else {
                    "other"
                };
                if why == "other" {
                    self.out.samples.push(format!("unclassified error: {m}"));
                }
                ("err", why.to_string())
            }
        };
        let obs = Obs { res, why: why.clone(), poisoned, injected, labels, failed_label: failed_label.clone() };
        let fault_txt = match (&fault, &failed_label) {
            (Some((_, pers)), Some(l)) => format!("{l}:{}", if *pers { "pers" } else { "once" }),
            // the call ended before reaching event k: nothing was injected
            _ => "-".into(),
        };
        let line = format!(
            "{res} why={why} poisoned={} root={} seqn={} loglen={}",
            if poisoned { 1 } else { 0 },
            hex(&db.root().into_inner()),
            db.sync_seqn(),
            self.loglen()
        );
        // a panic on a POISONED handle was finding F21 (repaired: `Nomt::rollback` tests the poison flag first; should it come back the
        // oracle below reports it); the in-memory state of such a handle is beyond the model, the line is not compared
        let line = if res == "panic" && was_poisoned { "skip".to_string() } else { format!("{line} order=ok") };
        self.out.line(
            format!(
                "pcall {kind} {id} {fault_txt}{}{} seq={}",
                if rblock { " rblock=busy" } else { "" },
                if finish_fail { " finish=fail" } else { "" },
                if seq.is_empty() { "-".to_string() } else { seq.join(",") }
            ),
            line,
        );
        self.out.count(&format!("calls_{kind}"));
        self.out.count(&format!("result_{res}_{why}"));
        // ---- oracles ----
        let d = format!("{kind} {id} fault={fault_txt} :: {}", self.desc);
        if res == "panic" && was_poisoned {
            self.out.count("panic_on_poisoned_handle");
            self.out.fail(format!("C14 F21 {kind} on a poisoned handle panicked instead of returning an error: {d}"));
        } else if res == "panic" {
            self.out.fail(format!("C14 the call panicked: {d}"));
        }
        if injected > 0 {
            if res == "ok" || res == "busy" {
                self.out.fail(format!("C14 an injected I/O failure was swallowed: the call returned {res}: {d}"));
            } else if !poisoned {
                self.out.fail(format!("C14 the call failed on an injected I/O error but the handle is not poisoned: {d}"));
            }
            self.limbo = Some((self.or.clone(), post));
        } else {
            match res {
                "ok" => {
                    self.or = post;
                    if poisoned {
                        self.out.fail(format!("C14 the call returned Ok on a poisoned handle: {d}"));
                    }
                }
                _ => {
                    if self.limbo.is_none() {
                        if finish_fail {
                            // an injected READ failure: recorded by the caller as an observation
                        } else if !poisoned {
                            self.check_unchanged(&format!("refused {kind} ({why})"));
                        } else if why != "poisoned" && !(kind == "rollback" && why == "refused") {
                            self.out.fail(format!("C14 a poisoned handle refused {kind} with `{why}`: {d}"));
                        }
                    } else if why != "poisoned" && res == "err" && !(kind == "rollback" && why == "refused") {
                        self.out.fail(format!("C14 after a reported I/O failure the next {kind} was refused with `{why}`, not because the handle is poisoned: {d}"));
                    }
                }
            }
        }
        obs
    }

    /// drop every handle, open the directory again
    fn preopen(&mut self) -> bool {
        self.drop_all();
        if !self.open_db() {
            self.out.line("preopen".into(), "open-failed".into());
            return false;
        }
        let db = self.db.as_ref().unwrap();
        let r = hex(&db.root().into_inner());
        let q = db.sync_seqn();
        let ll = self.loglen();
        self.out.line("preopen".into(), format!("{r} {q} loglen={ll}"));
        if let Some((pre, post)) = self.limbo.take() {
            let vals: BTreeMap<Key, Option<Val>> = self.universe.iter().map(|k| (*k, self.db.as_ref().unwrap().read(*k).ok().flatten())).collect();
            let matches = |o: &Oracle| r == root_of(&o.cur) && q == o.seqn && self.universe.iter().all(|k| vals[k].as_ref() == o.cur.get(k));
            if matches(&post) {
                self.out.count("reopened_post");
                self.or = post;
            } else if matches(&pre) {
                self.out.count("reopened_pre");
                self.or = pre;
            } else {
                self.out.fail(format!(
                    "C14 state after reopen is neither the state before nor after the faulted call (root {r} seqn {q}; pre seqn {} post seqn {}) :: {}",
                    pre.seqn, post.seqn, self.desc
                ));
                self.or = pre;
            }
            if self.cfg.rollback && ll != self.or.hist.len() {
                self.out.fail(format!("C14 rollback log after reopen holds {ll} deltas, the state it reopened to has {} :: {}", self.or.hist.len(), self.desc));
            }
        } else {
            self.check_unchanged("reopen");
        }
        true
    }

    fn save(&mut self, name: &str) {
        self.drop_all();
        let path = format!("{}.snap-{name}", self.dir);
        if let Err(e) = copy_db(&self.dir, &path) {
            self.out.fail(format!("(harness) snapshot failed: {e}"));
        }
        self.snaps.insert(name.to_string(), Snap { path, or: self.or.clone() });
        self.open_db();
        self.out.line(format!("save {name}"), "ok".into());
    }
    fn restore(&mut self, name: &str) {
        self.drop_all();
        let (path, or) = {
            let s = &self.snaps[name];
            (s.path.clone(), s.or.clone())
        };
        // wait until the old handle's background threads have let go of the directory (its lock)
        let t0 = std::time::Instant::now();
        loop {
            match nomt_lock_free(&self.dir) {
                true => break,
                false if t0.elapsed().as_millis() > 5000 => break,
                false => std::thread::sleep(std::time::Duration::from_millis(1)),
            }
        }
        if let Err(e) = copy_db(&path, &self.dir) {
            self.out.fail(format!("(harness) restore failed: {e}"));
        }
        self.or = or;
        self.limbo = None;
        self.open_db();
        self.out.line(format!("restore {name}"), "ok".into());
    }

    // ---- generators ----
    fn gen_value(&mut self) -> Val {
        let len = match if self.fat { self.rng.below(4) } else { self.rng.below(12) } {
            0 => self.rng.range(1334, 3000),
            1 => self.rng.range(4090, 9000),
            2 => 0,
            _ => self.rng.range(1, 40),
        };
        let mut v = vec![0u8; len];
        let mut x = self.rng.next();
        for b in v.iter_mut() {
            x = x.wrapping_mul(6364136223846793005).wrapping_add(1442695040888963407);
            *b = (x >> 33) as u8;
        }
        v
    }
    fn gen_writes(&mut self, view: &Map, n: usize) -> Writes {
        let mut ws: BTreeMap<Key, Option<Val>> = BTreeMap::new();
        for _ in 0..n {
            let k = *self.rng.pick(&self.universe.clone());
            let v = if view.contains_key(&k) && self.rng.chance(1, 3) { None } else { Some(self.gen_value()) };
            ws.insert(k, v);
        }
        ws.into_iter().collect()
    }
    fn session_commit(&mut self, n: usize) {
        let s = self.begin(&[]);
        let base = self.or.cur.clone();
        let ws = self.gen_writes(&base, n);
        let f = self.finish(s, base, ws);
        self.pcall("commit", f, None, false);
    }
}

/// Wait until no other thread of this process is runnable and the I/O hook sees nothing new: a task that was spawned on one of
/// the store's thread pools but has not been picked up yet shows as a runnable worker thread (the wake-up is part of `execute`).
fn quiesce() {
    let me = unsafe { libc::syscall(libc::SYS_gettid) } as u64;
    let others_asleep = || -> bool {
        let Ok(rd) = std::fs::read_dir("/proc/self/task") else { return true };
        for ent in rd.flatten() {
            let tid: u64 = ent.file_name().to_string_lossy().parse().unwrap_or(0);
            if tid == me {
                continue;
            }
            if let Ok(st) = std::fs::read_to_string(ent.path().join("stat")) {
                // "<pid> (<comm>) <state> ..."
                if let Some(i) = st.rfind(')') {
                    let state = st[i + 1..].trim_start().chars().next().unwrap_or('S');
                    if state != 'S' && state != 'I' {
                        return false;
                    }
                }
            }
        }
        true
    };
    let t0 = std::time::Instant::now();
    let mut last = iohook::begins();
    let mut stable = 0;
    while t0.elapsed().as_millis() < 2000 && stable < 4 {
        std::thread::sleep(std::time::Duration::from_micros(500));
        let b = iohook::begins();
        if b == last && iohook::inflight() <= 0 && others_asleep() {
            stable += 1;
        } else {
            stable = 0;
            last = b;
        }
    }
}

/// is the directory's `.lock` free (nobody holds the flock)?  Taken and released at once.
fn nomt_lock_free(dir: &str) -> bool {
    use std::os::fd::AsRawFd;
    match std::fs::OpenOptions::new().read(true).write(true).open(format!("{dir}/.lock")) {
        Ok(f) => {
            let rc = unsafe { libc::flock(f.as_raw_fd(), libc::LOCK_EX | libc::LOCK_NB) };
            if rc == 0 {
                unsafe { libc::flock(f.as_raw_fd(), libc::LOCK_UN) };
                true
            } else {
                false
            }
        }
        Err(_) => true,
    }
}

/// the step whose report fails (hook H15: only `session_finish` propagates the error)
static FAIL_STEP: std::sync::Mutex<Option<&'static str>> = std::sync::Mutex::new(None);

fn install_step_handler() {
    nomt::verif_hook::set_step_handler(Some(std::sync::Arc::new(|name: &'static str| {
        iohook::record_step(name);
        if *FAIL_STEP.lock().unwrap() == Some(name) {
            return Err(std::io::Error::from_raw_os_error(libc::EIO));
        }
        Ok(())
    })));
}

const KINDS: [&str; 5] = ["commit", "trycommit", "ocommit", "otrycommit", "rollback"];

pub fn run(seed: u64, cases: usize, out: &mut Sink, args: &[String]) {
    let probes_cap: usize = arg(args, "--probes").and_then(|s| s.parse().ok()).unwrap_or(10);
    let only_kind = arg(args, "--kind");
    let only_case: Option<usize> = arg(args, "--only-case").and_then(|s| s.parse().ok());
    let pid = std::process::id();
    let mut master = Rng::new(seed);
    for case in 0..cases {
        let mut rng = master.fork();
        if only_case.map_or(false, |c| c != case) {
            continue;
        }
        let mut cfg = DbCfg::gen(&mut rng);
        cfg.buckets = *rng.pick(&[256u32, 512, 1024]);
        cfg.rollback = !rng.chance(1, 8);
        cfg.maxlog = *rng.pick(&[1u32, 2, 3, 5]);
        cfg.prepopulate = false;
        let segsize: u64 = if rng.chance(1, 3) { 8192 } else { 0 };
        nomt::verif_hook::set_rollback_segment_size(segsize);
        let kind = only_kind.clone().unwrap_or_else(|| KINDS[(case + seed as usize) % KINDS.len()].to_string());
        let fat = rng.chance(1, 3);
        // sweep the very first commit of a fresh store (file growth, first segment of the rollback log) now and then
        let fresh_sweep = kind != "rollback" && rng.chance(1, 5);
        let dir = format!("/dev/shm/nomt-verif-db-{pid}-pipe-{seed}-{case}");
        let _ = std::fs::remove_dir_all(&dir);
        // a dense universe: two clusters under common prefixes + a few uniform keys
        let mut universe: Vec<Key> = vec![];
        let b1 = rng.bytes32();
        let b2 = rng.bytes32();
        for _ in 0..4 {
            universe.push(with_prefix(&mut rng, &b1, 14));
            universe.push(with_prefix(&mut rng, &b2, 7));
        }
        for _ in 0..3 {
            universe.push(rng.bytes32());
        }
        universe.sort();
        universe.dedup();
        let desc = format!("replay: vharness pipeline --seed {seed} --cases {cases} (case {case}, sweep {kind}, segsize {segsize}, cfg {})", cfg.describe());
        out.mark_case(format!("case {case} sweep={kind} segsize={segsize} fat={fat} fresh={fresh_sweep} cfg: {}", cfg.describe()));
        iohook::install(Mode::Observe, Loss::None, None);
        install_step_handler();
        let mut e = Eng {
            out: &mut *out,
            rng: rng.fork(),
            cfg: cfg.clone(),
            dir: dir.clone(),
            db: None,
            sess: BTreeMap::new(),
            fins: BTreeMap::new(),
            ovs: BTreeMap::new(),
            next_id: 0,
            or: Oracle { cur: Map::new(), seqn: 0, hist: vec![] },
            limbo: None,
            universe: universe.clone(),
            snaps: HashMap::new(),
            desc,
            pairs_alive: args.iter().any(|a| a == "--allow-warmup-pairs") || !cfg.warm_up || cfg.workers > 2,
            fat,
        };
        if !e.open_db() {
            let _ = iohook::uninstall();
            continue;
        }
        e.out.line(format!("init {} {}", if cfg.rollback { 1 } else { 0 }, cfg.maxlog), "ok".into());
        // ---- A: base history ----
        let ncommits = if fresh_sweep { 0 } else { e.rng.range(2, 4) };
        for i in 0..ncommits {
            if i == 1 && e.rng.chance(1, 2) {
                // an overlay commit
                let s = e.begin(&[]);
                let base = e.or.cur.clone();
                let ws = e.gen_writes(&base, 3);
                let f = e.finish(s, base, ws);
                let o = e.overlay(f);
                e.pcall("ocommit", o, None, false);
            } else {
                let n = e.rng.range(1, 5);
                e.session_commit(n);
            }
            if i == 2 && e.cfg.rollback && e.rng.chance(1, 3) {
                e.pcall("rollback", 1, None, false);
            }
        }
        let uni = e.universe.clone();
        e.observe(&uni);
        // ---- B: one refusal scenario ----
        if !fresh_sweep {
            refusal(&mut e);
        }
        // make sure there is something to roll back for a rollback sweep
        if kind == "rollback" && e.or.hist.is_empty() {
            e.session_commit(2);
        }
        // ---- C: fault sweep ----
        if !(kind == "rollback" && (!e.cfg.rollback || e.or.hist.is_empty())) {
            sweep(&mut e, &kind, probes_cap);
        } else {
            // rollback disabled: the call is refused; still a line
            e.pcall("rollback", 1, None, false);
        }
        e.drop_all();
        let snaps: Vec<String> = e.snaps.values().map(|s| s.path.clone()).collect();
        drop(e);
        nomt::verif_hook::set_step_handler(None);
        let _ = iohook::uninstall();
        let _ = std::fs::remove_dir_all(&dir);
        for s in snaps {
            let _ = std::fs::remove_dir_all(&s);
        }
    }
    nomt::verif_hook::set_rollback_segment_size(0);
}

/// one refused / deferred call, then a look at the handle and (if possible) a `rollback(1)`: must undo the last REAL commit
fn refusal(e: &mut Eng<'_>) {
    let mut choices: Vec<usize> = vec![0, 1, 2, 3, 4, 5, 6, 7, 9];
    if e.cfg.rollback {
        choices.push(8);
    }
    let sc = *e.rng.pick(&choices);
    e.out.count(&format!("refusal_scenario_{sc}"));
    let base = e.or.cur.clone();
    match sc {
        0 | 1 | 2 | 3 => {
            // two changesets on one base; the first wins, the second is stale
            // (the two sessions are not alive at the same time unless asked for: with `warm_up(true)` every live session keeps
            // one thread of the `nomt-commit` pool for its warm-up worker, so as many live sessions as `commit_concurrency`
            // make the first `finish` wait for ever — observed with commit_concurrency = 1; recorded in notes/Q16.md)
            let w1 = e.gen_writes(&base, 2);
            let w2 = e.gen_writes(&base, 2);
            let (f1, f2) = if e.pairs_alive {
                let s1 = e.begin(&[]);
                let s2 = e.begin(&[]);
                (e.finish(s1, base.clone(), w1), e.finish(s2, base.clone(), w2))
            } else {
                let s1 = e.begin(&[]);
                let f1 = e.finish(s1, base.clone(), w1);
                let s2 = e.begin(&[]);
                (f1, e.finish(s2, base.clone(), w2))
            };
            let target = if sc >= 2 { e.overlay(f2) } else { f2 };
            e.pcall("commit", f1, None, false);
            // (a first changeset that changes nothing leaves the root where it was: then the second is not stale; this must be
            // looked at BEFORE the second call — an accepted second changeset moves the oracle's state too)
            let first_moved_root = root_of(&e.or.cur) != root_of(&base);
            let kind = ["commit", "trycommit", "ocommit", "otrycommit"][sc];
            let o = e.pcall(kind, target, None, false);
            if first_moved_root && (o.res != "err" || o.why != "stale") {
                e.out.fail(format!("C12 a stale {kind} was not rejected as stale ({} {}) :: {}", o.res, o.why, e.desc));
            }
        }
        4 | 5 => {
            // child overlay before its parent
            let s1 = e.begin(&[]);
            let w1 = e.gen_writes(&base, 2);
            let f1 = e.finish(s1, base.clone(), w1);
            let o1 = e.overlay(f1);
            let v1 = e.ovs[&o1].view.clone();
            let s2 = e.begin(&[o1]);
            let w2 = e.gen_writes(&v1, 2);
            let f2 = e.finish(s2, v1, w2);
            let o2 = e.overlay(f2);
            let kind = if sc == 4 { "ocommit" } else { "otrycommit" };
            let o = e.pcall(kind, o2, None, false);
            if o.res != "err" || o.why != "marker" {
                e.out.fail(format!("C12 a child overlay committed before its parent was not rejected ({} {}) :: {}", o.res, o.why, e.desc));
            }
            e.pcall("ocommit", o1, None, false);
        }
        6 | 7 => {
            // a session is alive: the non-blocking commit hands the changeset back; once it is gone the same changeset goes through
            let s1 = e.begin(&[]);
            let w1 = e.gen_writes(&base, 2);
            let f1 = e.finish(s1, base.clone(), w1);
            let target = if sc == 7 { e.overlay(f1) } else { f1 };
            let live = e.begin(&[]);
            let kind = if sc == 6 { "trycommit" } else { "otrycommit" };
            let o = e.pcall(kind, target, None, false);
            if o.res != "busy" {
                e.out.fail(format!("C12 {kind} with a live session did not hand the changeset back ({} {}) :: {}", o.res, o.why, e.desc));
            }
            e.sdrop(live);
            e.pcall(kind, target, None, false);
        }
        8 => {
            // the rollback log's in-memory lock is held elsewhere: `commit_nonblocking` hands the delta back
            let s1 = e.begin(&[]);
            let w1 = e.gen_writes(&base, 2);
            let f1 = e.finish(s1, base.clone(), w1);
            let o = e.pcall("trycommit", f1, None, true);
            if o.res != "busy" {
                e.out.fail(format!("C12 trycommit with the rollback lock held did not hand the changeset back ({} {}) :: {}", o.res, o.why, e.desc));
            }
            e.pcall("trycommit", f1, None, false);
        }
        _ => {
            let n = e.or.hist.len() + 1;
            let o = e.pcall("rollback", n, None, false);
            if o.res != "err" {
                e.out.fail(format!("C09 rollback({n}) beyond the log was not refused :: {}", e.desc));
            }
        }
    }
    let uni = e.universe.clone();
    e.observe(&uni);
    // F1's symptom: what does the next rollback undo?
    if e.cfg.rollback && !e.or.hist.is_empty() {
        e.pcall("rollback", 1, None, false);
        e.observe(&uni);
        e.check_unchanged("rollback(1) after a refused call");
    }
}

/// what a probe needs rebuilt after every restore
struct Plan {
    spare: Writes,
    target: Writes,
    parent: Option<Writes>,
    n: usize,
}

fn prepare(e: &mut Eng<'_>, kind: &str, plan: &Plan) -> (usize, usize) {
    let base = e.or.cur.clone();
    let s0 = e.begin(&[]);
    let spare = e.finish(s0, base.clone(), plan.spare.clone());
    let id = match kind {
        "commit" | "trycommit" => {
            let s = e.begin(&[]);
            e.finish(s, base, plan.target.clone())
        }
        "ocommit" | "otrycommit" => match &plan.parent {
            Some(pw) => {
                // the target is a child overlay whose parent is committed first (marker = Some(parent))
                let s1 = e.begin(&[]);
                let f1 = e.finish(s1, base.clone(), pw.clone());
                let o1 = e.overlay(f1);
                let v1 = e.ovs[&o1].view.clone();
                let s2 = e.begin(&[o1]);
                let f2 = e.finish(s2, v1, plan.target.clone());
                let o2 = e.overlay(f2);
                e.pcall("ocommit", o1, None, false);
                o2
            }
            None => {
                let s = e.begin(&[]);
                let f = e.finish(s, base, plan.target.clone());
                e.overlay(f)
            }
        },
        _ => plan.n,
    };
    (id, spare)
}

fn sweep(e: &mut Eng<'_>, kind: &str, cap: usize) {
    let base = e.or.cur.clone();
    let nt = e.rng.range(1, 4);
    let mut plan = Plan { spare: e.gen_writes(&base, 1), target: e.gen_writes(&base, nt), parent: None, n: 1 };
    if (kind == "ocommit" || kind == "otrycommit") && e.rng.chance(1, 2) {
        let pw = e.gen_writes(&base, 2);
        let v1 = apply(&base, &pw);
        plan.target = e.gen_writes(&v1, nt);
        plan.parent = Some(pw);
    }
    if kind == "rollback" {
        plan.n = e.rng.range(1, e.or.hist.len().min(2));
    }
    e.save("base");
    // ---- the fault-free run: its event labels are the work of this call ----
    let (id, _spare) = prepare(e, kind, &plan);
    let dry = e.pcall(kind, id, None, false);
    if dry.res != "ok" {
        e.out.fail(format!("(harness) the fault-free {kind} did not succeed: {} {} :: {}", dry.res, dry.why, e.desc));
        return;
    }
    let labels = dry.labels.clone();
    e.out.line(format!("pwork {}", if labels.is_empty() { "-".to_string() } else { labels.join(",") }), format!("ok {}", labels.len()));
    e.out.add("events_in_swept_calls", labels.len() as u64);
    for l in &labels {
        e.out.count(&format!("label {l}"));
    }
    let mut touched: Vec<Key> = plan.target.iter().map(|(k, _)| *k).chain(plan.spare.iter().map(|(k, _)| *k)).collect();
    touched.extend(e.universe.iter().take(2).cloned());
    touched.sort();
    touched.dedup();
    e.observe(&touched);
    if !e.preopen() {
        return;
    }
    // ---- which events to fail: the first occurrence of every label, then random others ----
    let mut ks: Vec<usize> = vec![];
    let mut seen: Vec<&String> = vec![];
    for (i, l) in labels.iter().enumerate() {
        if !seen.contains(&l) {
            seen.push(l);
            ks.push(i);
        }
    }
    while ks.len() > cap {
        let i = e.rng.below(ks.len());
        ks.remove(i);
    }
    let mut guard = 0;
    while ks.len() < cap.min(labels.len()) && guard < 100 {
        guard += 1;
        let i = e.rng.below(labels.len());
        if !ks.contains(&i) {
            ks.push(i);
        }
    }
    ks.sort();
    for k in ks {
        let variants: Vec<bool> = if e.rng.chance(1, 2) { vec![false, true] } else { vec![e.rng.chance(1, 2)] };
        for pers in variants {
            e.restore("base");
            let (id, spare) = prepare(e, kind, &plan);
            let o = e.pcall(kind, id, Some((k as u64, pers)), false);
            e.out.count("probes");
            if o.injected == 0 {
                e.out.count("fault_not_reached");
            } else {
                e.out.count("faults_injected");
                let l = o.failed_label.clone().unwrap_or_default();
                e.out.nontrivial(&format!("{kind} {l} {pers} parent={}", plan.parent.is_some()));
                e.out.count(&format!("fault {kind} {l}"));
            }
            // what the handle serves now
            e.observe(&touched);
            if o.poisoned {
                // the next commit attempt, and (sometimes) a rollback on the poisoned handle
                let nx = e.pcall("commit", spare, None, false);
                if !(nx.res == "err" && nx.why == "poisoned") {
                    e.out.fail(format!("C14 the commit after a failed one was not refused as poisoned ({} {}) :: {}", nx.res, nx.why, e.desc));
                }
                if e.cfg.rollback && e.rng.chance(1, 2) {
                    e.pcall("rollback", 1, None, false);
                }
            }
            // drop the handle, open the directory again
            if !e.preopen() {
                continue;
            }
            let uni = e.universe.clone();
            e.observe(&uni);
            // the reopened store accepts a commit and a rollback as the model says
            e.session_commit(1);
            if e.cfg.rollback && !e.or.hist.is_empty() {
                e.pcall("rollback", 1, None, false);
            }
            e.observe(&touched);
        }
    }
    // ---- rollback only: the `Session::finish` inside `Nomt::rollback` fails (injected through the step hook H15; a read error in
    // reality): `Err` without poison after `truncate(n)` has popped the in-memory log.  The call itself is compared with the model;
    // what follows is recorded as an observation (a read failure is outside C14's quantifier): a commit, a reopen and rollback(1)
    if kind == "rollback" {
        e.restore("base");
        let (id, _spare) = prepare(e, kind, &plan);
        let before = e.or.clone();
        let ll0 = e.loglen();
        let o = e.pcall_x(kind, id, None, false, true);
        e.out.count("finish_failure_probes");
        e.observe(&touched);
        if o.res == "err" && !o.poisoned && e.loglen() + plan.n == ll0 {
            e.out.count("observation_finish_failure_truncated_log_without_poison");
        }
        // consequence on the real store (not compared with the model, not an oracle failure): commit, reopen, rollback(1)
        let s = e.db.as_ref().unwrap().begin_session(SessionParams::default());
        let k = e.universe[0];
        if let Ok(fin) = s.finish(vec![(k, KeyReadWrite::Write(Some(vec![7u8; 9])))]) {
            if fin.commit(e.db.as_ref().unwrap()).is_ok() {
                let after_commit = {
                    let mut m = before.cur.clone();
                    m.insert(k, vec![7u8; 9]);
                    m
                };
                e.drop_all();
                // (opened directly: a failure here is an observation, not an oracle failure of this run)
                let t0 = std::time::Instant::now();
                let opened = loop {
                    match Db::open(e.cfg.options(&e.dir)) {
                        Ok(db) => break Ok(db),
                        Err(err) => {
                            let m = format!("{err:#}");
                            if m.contains("lock") && t0.elapsed().as_millis() < 5000 {
                                std::thread::sleep(std::time::Duration::from_millis(2));
                                continue;
                            }
                            break Err(m);
                        }
                    }
                };
                match opened {
                    Err(m) => {
                        e.out.count("observation_finish_failure_then_commit_then_reopen_fails");
                        if e.out.samples.len() < 6 {
                            e.out.samples.push(format!("OBSERVATION rollback({}) with a failing finish, then a commit: the directory does not reopen: {m} :: {}", plan.n, e.desc));
                        }
                    }
                    Ok(db) => {
                        let ok_rb = db.rollback(1).is_ok();
                        let r = hex(&db.root().into_inner());
                        // a correct store would be back at the state before that commit
                        if ok_rb && r != root_of(&before.cur) {
                            e.out.count("observation_finish_failure_then_rollback_restores_wrong_state");
                            if e.out.samples.len() < 6 {
                                e.out.samples.push(format!(
                                    "OBSERVATION rollback({}) with a failing finish, commit, reopen, rollback(1): root {r}, expected {} (state before the commit); root after the commit was {} :: {}",
                                    plan.n, root_of(&before.cur), root_of(&after_commit), e.desc
                                ));
                            }
                        } else if !ok_rb {
                            e.out.count("observation_finish_failure_then_rollback_refused");
                        } else {
                            e.out.count("observation_finish_failure_then_rollback_fine");
                        }
                        drop(db);
                    }
                }
            }
        }
    }
    e.restore("base");
    e.out.samples.push(format!("sweep {kind}: {} events: {:?}", labels.len(), labels.iter().take(40).collect::<Vec<_>>()));
}
