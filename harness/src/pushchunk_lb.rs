//! C16 / C01 (unit Q48): the REAL `LeafBuilder` (`nomt/src/beatree/leaf/node.rs`: `new`, `push_cell`, `push_chunk`, `finish`)
//! driven call by call through hook H29 `nomt::verif_api::leaf_builder` — the direct tie of the byte-level mirror
//! `lbNew / lbPush / lbPushChunk / lbFinish` (`lean/NomtModel/Store/LeafPushChunk.lean`), driver mode `pushchunk`.
//! Command `pushchunk`.  Child module of `leafupd.rs` (`#[path]`; it reuses its key / value generators).
//!
//! One line per case (numbers decimal, bytes lowercase hex, `-` = empty):
//!   lb <n> <total> <k> <op_1> … <op_k>        -> ok <page, 8192 hex digits> | panic
//!      op = `P <key, 64 hex> <0|1 overflow> <value hex | ->`  |  `C <from> <to> <base page, 8192 hex>`
//! (`LeafBuilder::new(pool, n, total)`, the page bytes [2, 4096) zeroed, the ops, `finish()`).
//!
//! A case: a base leaf built by a first real builder from random sorted entries (inline values of 0..1300 bytes, overflow
//! cells of 40 + 4k bytes with the overflow bit; the base is emitted as an `lb` line of pushes too), then a new leaf whose op
//! list keeps runs of base cells as `C` ops (runs of 1 / all / some cells, a run also cut into two `C` ops), drops some, pushes
//! some again as `P`, and pushes fresh cells in front / between / behind — so the rebase difference
//! `(4096 − total' + bytes in front') − (4096 − total_base + bytes in front of from)` is positive, zero and negative and the
//! chunk is the first call or a later one.  `total` exact (finish ok) or off by one either way (`finish` assert / underflow).
//! Malformed stream: `to > n_base`, `index + n_items > n`, `to < from`, an EMPTY range at 0, at n_base, inside (as a middle op and
//! as the last op), a chunk into a builder that is already full.
//!
//! Oracle independent of the model (`C16 pushchunk: …`): on a well-formed request nothing panics and the finished leaf read back
//! through the real `LeafNode::{n, key, value}` is exactly the list of (key, value bytes, overflow bit) pushed / kept.
use super::*;
use nomt::verif_api::leaf_builder as lb;

const PAGE: usize = 4096;

fn cell(r: &mut Rng) -> (Vec<u8>, bool) {
    match r.below(8) {
        0 | 1 => {
            let k = r.range(1, 15);
            (value(r, 40 + 4 * k), true)
        }
        2 => {
            let n = *r.pick(&[0usize, 0, 1, 2, 33, 34, 35]);
            (value(r, n), false)
        }
        3 => {
            let n = r.range(400, 1300);
            (value(r, n), false)
        }
        _ => {
            let n = r.range(1, 200);
            (value(r, n), false)
        }
    }
}

fn op_str(op: &lb::Op) -> String {
    match op {
        lb::Op::Cell(k, v, o) => format!("P {} {} {}", hex(k), if *o { 1 } else { 0 }, cell_str_dash(v)),
        lb::Op::Chunk(p, from, to) => format!("C {} {} {}", from, to, hex(p)),
    }
}
fn cell_str_dash(v: &[u8]) -> String {
    if v.is_empty() {
        "-".into()
    } else {
        hex(v)
    }
}
fn line_of(n: usize, total: usize, ops: &[lb::Op]) -> String {
    let mut s = format!("lb {} {} {}", n, total, ops.len());
    for op in ops {
        s.push(' ');
        s.push_str(&op_str(op));
    }
    s
}
fn real(n: usize, total: usize, ops: &[lb::Op]) -> Option<Vec<u8>> {
    catch_unwind(AssertUnwindSafe(|| lb::run(n, total, ops))).ok()
}
fn emit(out: &mut Sink, n: usize, total: usize, ops: &[lb::Op]) -> Option<Vec<u8>> {
    let got = real(n, total, ops);
    out.line(line_of(n, total, ops), got.as_ref().map(|p| format!("ok {}", hex(p))).unwrap_or("panic".into()));
    got
}
fn short(ops: &[lb::Op]) -> String {
    ops.iter()
        .map(|op| match op {
            lb::Op::Cell(_, v, o) => format!("P({}{})", v.len(), if *o { ",ovf" } else { "" }),
            lb::Op::Chunk(_, f, t) => format!("C({f},{t})"),
        })
        .collect::<Vec<_>>()
        .join(" ")
}

fn case(r: &mut Rng, out: &mut Sink) {
    // ---- the base leaf
    let nb_want = *r.pick(&[1usize, 2, 3, 3, 4, 5, 6, 8, 10]);
    let mut cells: Vec<(Vec<u8>, bool)> = Vec::new();
    let mut body = 0usize;
    for _ in 0..nb_want {
        let (v, o) = cell(r);
        if body + 34 + v.len() > 3000 {
            continue;
        }
        body += 34 + v.len();
        cells.push((v, o));
    }
    if cells.is_empty() {
        cells.push((value(r, 7), false));
    }
    let nb = cells.len();
    let all = sorted_keys(r, 2 * nb + 1);
    let base: Vec<Entry> = cells.into_iter().enumerate().map(|(i, (v, o))| (all[2 * i + 1], v, o)).collect();
    let total_base: usize = base.iter().map(|e| e.1.len()).sum();
    let base_ops: Vec<lb::Op> = base.iter().map(|(k, v, o)| lb::Op::Cell(*k, v.clone(), *o)).collect();
    let Some(base_page) = emit(out, nb, total_base, &base_ops) else {
        out.fail(format!("C16 pushchunk: LeafBuilder panicked on a plain sequence of push_cell: n {nb} total {total_base}"));
        return;
    };
    let rb = catch_unwind(AssertUnwindSafe(|| lb::entries(&base_page))).ok();
    if rb.as_ref() != Some(&base) {
        out.fail(format!("C16 pushchunk: the base leaf does not read back as pushed: n {nb} total {total_base}"));
        return;
    }

    // ---- the new leaf: a plan over the 2·nb + 1 slots
    let mut expected: Vec<Entry> = Vec::new();
    let mut ops: Vec<lb::Op> = Vec::new();
    let mut run: Option<(usize, usize)> = None;
    // (op index, base from, index in the new leaf, value bytes in front in the new leaf)
    let mut chunks: Vec<(usize, usize, usize, usize)> = Vec::new();
    let shape = r.below(6);
    macro_rules! close_run {
        () => {
            if let Some((a, b)) = run.take() {
                let idx = expected.len() - (b - a);
                let front: usize = expected[..idx].iter().map(|e| e.1.len()).sum();
                if b - a >= 2 && r.chance(1, 4) {
                    let m = r.range(a + 1, b - 1);
                    chunks.push((ops.len(), a, idx, front));
                    ops.push(lb::Op::Chunk(base_page.clone(), a, m));
                    let front2: usize = expected[..idx + (m - a)].iter().map(|e| e.1.len()).sum();
                    chunks.push((ops.len(), m, idx + (m - a), front2));
                    ops.push(lb::Op::Chunk(base_page.clone(), m, b));
                } else {
                    chunks.push((ops.len(), a, idx, front));
                    ops.push(lb::Op::Chunk(base_page.clone(), a, b));
                }
            }
        };
    }
    for slot in 0..=2 * nb {
        if slot % 2 == 0 {
            // a fresh key: pushed in some shapes
            let p = match shape {
                0 => 0,                                  // nothing fresh: only kept / dropped
                1 => (slot == 0) as usize * 100,         // in front
                2 => (slot == 2 * nb) as usize * 100,    // behind
                _ => 25,
            };
            if r.below(100) < p {
                close_run!();
                let (v, o) = cell(r);
                ops.push(lb::Op::Cell(all[slot], v.clone(), o));
                expected.push((all[slot], v, o));
            }
        } else {
            let i = slot / 2;
            let what = match shape {
                0 if r.chance(1, 5) => "drop",
                3 if r.chance(1, 4) => "drop",
                4 if r.chance(1, 4) => "repush",
                5 if r.chance(1, 4) => "replace",
                _ => "keep",
            };
            match what {
                "keep" => {
                    expected.push(base[i].clone());
                    run = Some(match run {
                        Some((a, _)) => (a, i + 1),
                        None => (i, i + 1),
                    });
                }
                "drop" => close_run!(),
                "repush" => {
                    close_run!();
                    ops.push(lb::Op::Cell(base[i].0, base[i].1.clone(), base[i].2));
                    expected.push(base[i].clone());
                }
                _ => {
                    close_run!();
                    let (v, o) = cell(r);
                    ops.push(lb::Op::Cell(base[i].0, v.clone(), o));
                    expected.push((base[i].0, v, o));
                }
            }
        }
    }
    close_run!();
    let n_new = expected.len();
    let total_new: usize = expected.iter().map(|e| e.1.len()).sum();
    if chunks.is_empty() || 2 + 34 * n_new + total_new > PAGE {
        out.count("lb_skipped_no_chunk_or_too_big");
        return;
    }
    let mut kind = "valid";
    let (mut n_hdr, mut total_hdr) = (n_new, total_new);
    if r.chance(1, 4) {
        let (oi, from, _, _) = *r.pick(&chunks);
        let to = match &ops[oi] {
            lb::Op::Chunk(_, _, t) => *t,
            _ => 0,
        };
        match r.below(10) {
            0 => {
                total_hdr = total_new + 1;
                kind = "total+1";
            }
            1 => {
                if total_new > 0 {
                    total_hdr = total_new - 1;
                    kind = "total-1";
                }
            }
            2 => {
                ops[oi] = lb::Op::Chunk(base_page.clone(), from, nb + r.range(1, 3));
                n_hdr = n_new + 4;
                kind = "to>n_base";
            }
            3 => {
                n_hdr = n_new - 1;
                kind = "n-too-small";
            }
            4 => {
                if to > from {
                    ops[oi] = lb::Op::Chunk(base_page.clone(), to, from);
                    kind = "to<from";
                }
            }
            5 => {
                let at = r.below(ops.len() + 1);
                ops.insert(at, lb::Op::Chunk(base_page.clone(), 0, 0));
                kind = "empty-at-0";
            }
            6 => {
                let at = r.below(ops.len() + 1);
                ops.insert(at, lb::Op::Chunk(base_page.clone(), nb, nb));
                kind = "empty-at-n_base";
            }
            7 => {
                if nb >= 2 {
                    // not behind the last op: the builder is full there
                    let at = r.below(ops.len());
                    let f = r.range(1, nb - 1);
                    ops.insert(at, lb::Op::Chunk(base_page.clone(), f, f));
                    kind = "empty-inside";
                }
            }
            8 => {
                if nb >= 2 {
                    let f = r.range(1, nb - 1);
                    ops.push(lb::Op::Chunk(base_page.clone(), f, f));
                    kind = "empty-inside-builder-full";
                }
            }
            _ => {
                ops.push(lb::Op::Chunk(base_page.clone(), 0, 1));
                kind = "chunk-into-full-builder";
            }
        }
    }
    out.count(&format!("lb_kind_{kind}"));
    let line_short = format!("n {n_hdr} total {total_hdr} base n {nb} total {total_base}: {}", short(&ops));
    out.nontrivial(&line_short);
    let got = emit(out, n_hdr, total_hdr, &ops);
    if got.is_none() {
        out.count(&format!("lb_panic_{kind}"));
    } else {
        out.count(&format!("lb_ok_{kind}"));
    }
    if kind == "valid" || kind == "empty-inside" {
        let Some(page) = got else {
            out.fail(format!("C16 pushchunk: LeafBuilder panicked on a well-formed request ({kind}): {line_short}"));
            return;
        };
        let rb = catch_unwind(AssertUnwindSafe(|| lb::entries(&page))).ok();
        if rb.as_ref() != Some(&expected) {
            let pos = rb.as_ref().map(|v| v.iter().zip(expected.iter()).position(|(a, b)| a != b).unwrap_or(v.len().min(expected.len())));
            out.fail(format!("C16 pushchunk: the finished leaf does not read back as the cells pushed / kept (first difference at {pos:?}; {kind}): {line_short}"));
        }
        // the same leaf from push_cell only: byte equality is expected here (the page was zeroed) — counted
        let ref_ops: Vec<lb::Op> = expected.iter().map(|(k, v, o)| lb::Op::Cell(*k, v.clone(), *o)).collect();
        match real(n_new, total_new, &ref_ops) {
            Some(p) if p == page => out.count("lb_bytes_equal_one_by_one"),
            Some(_) => out.count("lb_bytes_differ_one_by_one"),
            None => out.fail(format!("C16 pushchunk: the one-by-one builder panicked where push_chunk did not: {line_short}")),
        }
    }
    if kind == "valid" {
        for (oi, from, idx, front_new) in &chunks {
            let lb::Op::Chunk(_, _, to) = &ops[*oi] else { continue };
            let front_base: usize = base[..*from].iter().map(|e| e.1.len()).sum();
            let d = (PAGE - total_new + front_new) as isize - (PAGE - total_base + front_base) as isize;
            out.count(if d == 0 { "lb_rebase_zero" } else if d > 0 { "lb_rebase_positive" } else { "lb_rebase_negative" });
            out.count(if *oi == 0 { "lb_chunk_is_first_call" } else { "lb_chunk_is_later_call" });
            let _ = idx;
            out.count(match to - from {
                1 => "lb_len_one",
                l if l == nb => "lb_len_whole_leaf",
                _ => "lb_len_sub",
            });
            if base[*from..*to].iter().any(|e| e.2) {
                out.count(if d != 0 { "lb_chunk_with_overflow_cell_rebased" } else { "lb_chunk_with_overflow_cell_not_rebased" });
            }
            out.add("lb_kept_cells", (to - from) as u64);
        }
    }
}

pub fn run(seed: u64, cases: usize, out: &mut Sink) {
    let mut rng = Rng::new(seed ^ 0x9C48_1B);
    for c in 0..cases {
        let mut r = rng.fork();
        out.mark_case(format!("case {c}"));
        case(&mut r, out);
    }
}
