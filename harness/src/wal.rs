//! C03 / C04 / C16: the bitbox write-ahead log and the page diff — the real `PageDiff`, `WalBlobBuilder`,
//! `WalBlobReader` and the redo loop of `bitbox::recover` (through `DB::open`), driven through `nomt::verif_api`
//! (cfg nomt_verif), against the Lean mirrors (driver mode `wal`) line by line, plus oracles that do not depend on
//! the model:
//!   * round trip: the real reader returns exactly the sequence number and the entries the real builder was given;
//!   * shape: the blob is a multiple of the page size, everything after the END tag is zero;
//!   * redo: after `recover` every bucket named by an update entry holds the page the writer intended (when the
//!     bucket's old content agreed with the writer's base outside the diff), cleared buckets are tombstones, other
//!     buckets are untouched, the WAL is truncated; recovering a table on which any part of the write-out already
//!     happened gives the same table (idempotence — crash during recovery / during the post-meta write-out);
//!   * totality: the real reader never panics, on any byte string.
use crate::util::*;
use nomt::verif_api::{hash_raw_page_id, open_and_recover, wal_read, PageDiff, PlainWalEntry, WalSim};
use std::io::Write as _;
use std::panic::{catch_unwind, AssertUnwindSafe};

const PAGE: usize = 4096;

// ------------------------------------------------------------------------------------------------ formatting

fn blob(b: &[u8]) -> String {
    let z = b.iter().rev().take_while(|&&x| x == 0).count();
    format!("{}+{}", hex(&b[..b.len() - z]), z)
}

fn nodes_str(ns: &[[u8; 32]]) -> String {
    if ns.is_empty() {
        "-".into()
    } else {
        ns.iter().map(|n| hex(n)).collect::<Vec<_>>().join("")
    }
}

#[derive(Clone, Debug, PartialEq, Eq)]
enum Entry {
    Clear(u64),
    Update { pid: [u8; 32], diff: [u64; 2], nodes: Vec<[u8; 32]>, elided: u64, bucket: u64 },
}

impl Entry {
    fn show(&self) -> String {
        match self {
            Entry::Clear(b) => format!("C{b}"),
            Entry::Update { pid, diff, nodes, elided, bucket } => {
                format!("U{},{},{},{},{},{}", hex(pid), diff[0], diff[1], nodes_str(nodes), elided, bucket)
            }
        }
    }
    fn size(&self) -> usize {
        match self {
            Entry::Clear(_) => 9,
            Entry::Update { nodes, .. } => 65 + 32 * nodes.len(),
        }
    }
    fn from_plain(e: &PlainWalEntry) -> Entry {
        match e {
            PlainWalEntry::Clear { bucket } => Entry::Clear(*bucket),
            PlainWalEntry::Update { page_id, page_diff, changed_nodes, elided_children, bucket } => Entry::Update {
                pid: *page_id,
                diff: *page_diff,
                nodes: changed_nodes.clone(),
                elided: *elided_children,
                bucket: *bucket,
            },
        }
    }
}

fn entries_str(es: &[Entry]) -> String {
    if es.is_empty() {
        "-".into()
    } else {
        es.iter().map(|e| e.show()).collect::<Vec<_>>().join(";")
    }
}

fn err_kind(msg: &str) -> String {
    let num = |s: &str| s.trim().split(|c: char| !c.is_ascii_digit()).next().unwrap_or("").to_string();
    if msg.contains("not a multiple of the page size") {
        "filesize".into()
    } else if msg.contains("Unexpected end of WAL file") {
        "eof".into()
    } else if let Some(i) = msg.find("unexpected WAL entry tag at start:") {
        format!("badstart{}", num(&msg[i + "unexpected WAL entry tag at start:".len()..]))
    } else if let Some(i) = msg.find("unknown WAL entry tag:") {
        format!("badtag{}", num(&msg[i + "unknown WAL entry tag:".len()..]))
    } else if msg.contains("Invalid page diff") {
        "baddiff".into()
    } else if msg.contains("mismatched number of changed nodes") {
        "countmismatch".into()
    } else if msg.contains("failed to fill whole buffer") || msg.contains("UnexpectedEof") {
        "hteof".into()
    } else {
        format!("other:{}", msg.replace(' ', "_"))
    }
}

// ------------------------------------------------------------------------------------------------ generators

fn gen_u64(r: &mut Rng) -> u64 {
    match r.below(10) {
        0 => 0,
        1 => 1,
        2 => u32::MAX as u64,
        3 => 1u64 << 32,
        4 => 1u64 << 63,
        5 => u64::MAX,
        6 => u64::MAX - 1,
        7 => r.below(300) as u64,
        _ => r.next(),
    }
}

fn gen_seqn(r: &mut Rng) -> u32 {
    match r.below(6) {
        0 => 0,
        1 => 1,
        2 => u32::MAX,
        3 => u32::MAX - 1,
        4 => r.below(1000) as u32,
        _ => r.next() as u32,
    }
}

/// slot sets aimed at the word boundary and at the extremes
fn gen_slots(r: &mut Rng) -> (Vec<usize>, &'static str) {
    match r.below(12) {
        0 => (vec![], "0"),
        1 => (vec![*r.pick(&[0usize, 1, 62, 63, 64, 65, 124, 125])], "1"),
        2 => ((0..126).collect(), "126"),
        3 => (vec![63, 64], "63+64"),
        4 => ((0..64).collect(), "word0"),
        5 => ((64..126).collect(), "word1"),
        6 => ((0..126).filter(|i| i % 2 == 0).collect(), "even"),
        7 => {
            let lo = r.below(126);
            let hi = r.range(lo, 125);
            ((lo..=hi).collect(), "run")
        }
        8 => ((0..126).filter(|_| r.chance(9, 10)).collect(), "dense"),
        9 => ((0..126).filter(|_| r.chance(1, 10)).collect(), "sparse"),
        10 => (vec![0, 125], "ends"),
        _ => ((0..126).filter(|_| r.chance(1, 2)).collect(), "half"),
    }
}

/// the diff built by the real `set_changed` (in a shuffled order)
fn diff_of_slots(r: &mut Rng, slots: &[usize]) -> PageDiff {
    let mut d = PageDiff::default();
    let mut order: Vec<usize> = slots.to_vec();
    for i in (1..order.len()).rev() {
        let j = r.below(i + 1);
        order.swap(i, j);
    }
    for s in order {
        d.set_changed(s);
    }
    d
}

fn gen_node(r: &mut Rng) -> [u8; 32] {
    match r.below(8) {
        0 => [0u8; 32],
        1 => [0xffu8; 32],
        _ => r.bytes32(),
    }
}

fn gen_pid(r: &mut Rng) -> [u8; 32] {
    use nomt_core::page_id::{ChildPageIndex, ROOT_PAGE_ID};
    if r.chance(1, 4) {
        return r.bytes32();
    }
    let mut p = ROOT_PAGE_ID;
    for _ in 0..r.below(9) {
        p = p.child_page_id(ChildPageIndex::new(r.below(64) as u8).unwrap()).unwrap();
    }
    p.encode()
}

fn gen_update(r: &mut Rng, out: &mut Sink, honest: bool) -> Entry {
    let (slots, kind) = gen_slots(r);
    out.count(&format!("wal_diff_{kind}"));
    let d = diff_of_slots(r, &slots);
    let mut n = slots.len();
    if !honest {
        // the builder takes any iterator: a node count that does not match the diff (the reader then walks off)
        n = match r.below(3) {
            0 => n + 1,
            1 => n.saturating_sub(1),
            _ => r.below(130),
        };
    }
    Entry::Update { pid: gen_pid(r), diff: d.verif_words(), nodes: (0..n).map(|_| gen_node(r)).collect(), elided: gen_u64(r), bucket: gen_u64(r) }
}

fn gen_entries(r: &mut Rng, out: &mut Sink, honest: bool) -> Vec<Entry> {
    let n = match r.below(8) {
        0 => 0,
        1 => 1,
        2 => 2,
        3 => r.range(3, 8),
        4 => r.range(9, 40),
        _ => r.range(0, 6),
    };
    let mut es: Vec<Entry> = (0..n)
        .map(|_| {
            if r.chance(1, 3) {
                Entry::Clear(gen_u64(r))
            } else {
                let h = honest || r.chance(2, 3);
                gen_update(r, out, h)
            }
        })
        .collect();
    // aim the END tag at a page boundary: body = 5 + entries + 1
    if r.chance(1, 3) {
        let cur: usize = 5 + es.iter().map(|e| e.size()).sum::<usize>();
        // body length (with the END tag) 4095 / 4096 / 4097 modulo the page size
        let body_target = (cur / PAGE + 1) * PAGE + *r.pick(&[0usize, 1, 2]) - 1;
        let rem = (body_target - 1).saturating_sub(cur); // bytes of entries still to add (0: nothing fits)
        'search: for c in 0..40usize {
            if 9 * c == rem {
                for _ in 0..c {
                    es.push(Entry::Clear(gen_u64(r)));
                }
                out.count("wal_end_at_boundary");
                break 'search;
            }
            for k in 0..=126usize {
                for k2 in [usize::MAX, 0, 126] {
                    let extra = if k2 == usize::MAX { 0 } else { 65 + 32 * k2 };
                    if 9 * c + 65 + 32 * k + extra == rem {
                        for _ in 0..c {
                            es.push(Entry::Clear(gen_u64(r)));
                        }
                        for kk in [k, k2] {
                            if kk == usize::MAX {
                                continue;
                            }
                            let slots: Vec<usize> = (0..kk).collect();
                            let d = diff_of_slots(r, &slots);
                            es.push(Entry::Update { pid: gen_pid(r), diff: d.verif_words(), nodes: (0..kk).map(|_| gen_node(r)).collect(), elided: gen_u64(r), bucket: gen_u64(r) });
                        }
                        out.count("wal_end_at_boundary");
                        break 'search;
                    }
                }
            }
        }
    }
    es
}

fn entry_honest(e: &Entry) -> bool {
    match e {
        Entry::Clear(_) => true,
        Entry::Update { diff, nodes, .. } => {
            (diff[0].count_ones() + diff[1].count_ones()) as usize == nodes.len() && diff[1] >> 62 == 0
        }
    }
}

// ------------------------------------------------------------------------------------------------ real builder

enum Op {
    Reset(u32),
    Entry(Entry),
    Finalize,
}

fn ops_str(ops: &[Op]) -> String {
    ops.iter()
        .map(|o| match o {
            Op::Reset(s) => format!("R{s}"),
            Op::Entry(e) => e.show(),
            Op::Finalize => "F".into(),
        })
        .collect::<Vec<_>>()
        .join(";")
}

fn real_build(size: Option<usize>, ops: &[Op]) -> Option<Vec<u8>> {
    catch_unwind(AssertUnwindSafe(|| {
        let mut b = WalSim::new(size).expect("mmap");
        for op in ops {
            match op {
                Op::Reset(s) => b.reset(*s),
                Op::Finalize => b.finalize(),
                Op::Entry(Entry::Clear(bk)) => b.write_clear(*bk),
                Op::Entry(Entry::Update { pid, diff, nodes, elided, bucket }) => {
                    b.write_update(*pid, &PageDiff::verif_from_words(*diff), nodes.clone(), *elided, *bucket)
                }
            }
        }
        b.as_slice().to_vec()
    }))
    .ok()
}

fn real_read(dir: &str, content: &[u8]) -> Result<Result<(u32, Vec<PlainWalEntry>, Result<(), String>), String>, ()> {
    let path = format!("{dir}/wal");
    std::fs::write(&path, content).expect("write wal");
    let f = std::fs::OpenOptions::new().read(true).write(true).open(&path).expect("open wal");
    catch_unwind(AssertUnwindSafe(|| wal_read(&f))).map_err(|_| ())
}

fn read_line(out: &mut Sink, dir: &str, content: &[u8], what: &str) -> Option<(u32, Vec<Entry>, bool)> {
    let op = format!("wread {}", blob(content));
    match real_read(dir, content) {
        Err(()) => {
            out.line(op.clone(), "panic".into());
            out.fail(format!("C03 WalBlobReader panicked on a {what} WAL file: {}", &op[..op.len().min(300)]));
            None
        }
        Ok(Err(msg)) => {
            out.line(op, format!("err {}", err_kind(&msg)));
            None
        }
        Ok(Ok((seqn, entries, end))) => {
            let es: Vec<Entry> = entries.iter().map(Entry::from_plain).collect();
            let e = match &end {
                Ok(()) => "ok".to_string(),
                Err(m) => format!("err {}", err_kind(m)),
            };
            out.line(op, format!("ok seqn={seqn} entries={} end={e}", entries_str(&es)));
            Some((seqn, es, end.is_ok()))
        }
    }
}

// ------------------------------------------------------------------------------------------------ wal: builder + reader

pub fn run(seed: u64, cases: usize, out: &mut Sink) {
    let dir = format!("/dev/shm/nomt-verif-wal-{}-{seed}", std::process::id());
    let _ = std::fs::remove_dir_all(&dir);
    std::fs::create_dir_all(&dir).expect("mkdir");
    let mut rng = Rng::new(seed ^ 0x3A1);
    for case in 0..cases {
        let mut r = rng.fork();
        match r.below(10) {
            0 | 1 => case_pagediff(&mut r, case, out),
            2 | 3 | 4 => case_recover(&mut r, case, out, &dir),
            _ => case_blob(&mut r, case, out, &dir),
        }
    }
    let _ = std::fs::remove_dir_all(&dir);
}

fn case_blob(r: &mut Rng, case: usize, out: &mut Sink, dir: &str) {
    let honest = r.chance(3, 4);
    let seqn = gen_seqn(r);
    let entries = gen_entries(r, out, honest);
    let size = *r.pick(&[None, None, Some(4096usize), Some(8192), Some(1 << 16)]);
    let mut ops: Vec<Op> = Vec::new();
    // the state machine: sometimes an earlier (longer or shorter) run on the same builder, sometimes writes without reset
    let prelude = r.below(6);
    if prelude == 0 {
        ops.push(Op::Reset(gen_seqn(r)));
        for e in gen_entries(r, out, true) {
            ops.push(Op::Entry(e));
        }
        ops.push(Op::Finalize);
        out.count("wal_builder_reused");
    } else if prelude == 1 {
        ops.push(Op::Reset(gen_seqn(r)));
        ops.push(Op::Entry(gen_update(r, out, true)));
        out.count("wal_builder_reset_without_finalize");
    }
    ops.push(Op::Reset(seqn));
    for e in &entries {
        ops.push(Op::Entry(e.clone()));
    }
    ops.push(Op::Finalize);
    let tail = r.below(12) == 0;
    if tail {
        // writes after finalize (never done by prepare_sync; the state machine allows it)
        ops.push(Op::Entry(Entry::Clear(gen_u64(r))));
        out.count("wal_write_after_finalize");
    }
    out.mark_case(format!("case {case} blob entries={} honest={honest} mmap={size:?} prelude={prelude}", entries.len()));
    let op = format!("wbuild {} {}", size.unwrap_or(1 << 30), ops_str(&ops));
    let built = real_build(size, &ops);
    out.count("wal_blobs");
    out.count(&format!("wal_entries_{}", match entries.len() { 0 => "0", 1 => "1", 2..=8 => "2-8", _ => "9+" }));
    let Some(bytes) = built else {
        out.line(op.clone(), "panic".into());
        out.fail(format!("C03 WalBlobBuilder panicked: {}", &op[..op.len().min(300)]));
        return;
    };
    out.line(op.clone(), format!("ok {}", blob(&bytes)));
    out.nontrivial(&op);
    if out.samples.len() < 3 {
        let mut s = op.clone();
        s.truncate(200);
        out.samples.push(s);
    }
    if tail {
        return;
    }
    // ---- shape oracle
    let body: usize = 6 + entries.iter().map(|e| e.size()).sum::<usize>();
    if bytes.len() % PAGE != 0 || bytes.len() < body || bytes.len() >= body + PAGE {
        out.fail(format!("C03 WAL blob of {} bytes for a body of {body} bytes is not the body padded to the page size (case {case})", bytes.len()));
        return;
    }
    if bytes[body..].iter().any(|&b| b != 0) {
        out.fail(format!("C03 WAL blob carries non-zero bytes after the END tag (case {case})"));
    }
    // ---- the real reader on the real blob
    let all_honest = entries.iter().all(entry_honest);
    if let Some((s, es, ended)) = read_line(out, dir, &bytes, "well-formed") {
        if all_honest && (s != seqn || es != entries || !ended) {
            out.fail(format!("C03 WAL round trip: the reader returned seqn {s} / {} entries / end={ended} for seqn {seqn} / {} entries (case {case})", es.len(), entries.len()));
        }
        if all_honest {
            out.count("wal_roundtrips");
        }
    } else if all_honest {
        out.fail(format!("C03 WAL round trip: the reader rejected a blob the builder produced (case {case})"));
    }
    // ---- malformed streams derived from the blob
    if !all_honest {
        return;
    }
    let nmut = r.range(1, 3);
    for _ in 0..nmut {
        let mut m = bytes.clone();
        // offsets of the entries
        let mut offs = vec![];
        let mut o = 5;
        for e in &entries {
            offs.push(o);
            o += e.size();
        }
        let end_off = o;
        let kind = r.below(12);
        let what = match kind {
            0 => {
                m.truncate(m.len() - PAGE.min(m.len()));
                "truncated by a page"
            }
            1 => {
                let k = r.range(1, PAGE - 1).min(m.len());
                m.truncate(m.len() - k);
                "truncated inside a page"
            }
            2 => {
                m.clear();
                "zero-length"
            }
            3 => {
                m[0] = *r.pick(&[0u8, 2, 3, 4, 5, 255]);
                "bad start tag"
            }
            4 if !offs.is_empty() => {
                let i = r.below(offs.len());
                m[offs[i]] = *r.pick(&[0u8, 1, 5, 6, 255, 2, 3, 4]);
                "changed entry tag"
            }
            5 => {
                let ups: Vec<usize> = (0..entries.len()).filter(|&i| matches!(entries[i], Entry::Update { .. })).collect();
                if ups.is_empty() {
                    continue;
                }
                let i = *r.pick(&ups);
                // the last byte of the 16-byte diff holds bits 120..127
                m[offs[i] + 1 + 32 + 15] |= *r.pick(&[0x40u8, 0x80, 0xc0]);
                "reserved diff bits set"
            }
            6 => {
                m[end_off] = *r.pick(&[0u8, 1, 5, 77, 255]);
                "END tag replaced"
            }
            7 => {
                // garbage after the END tag (inside the padding and in an extra page)
                let n = m.len();
                for b in m[end_off + 1..n].iter_mut() {
                    *b = r.next() as u8;
                }
                if r.chance(1, 2) {
                    m.extend((0..PAGE).map(|_| r.next() as u8));
                }
                "garbage after the END tag"
            }
            8 => {
                let ups: Vec<usize> = (0..entries.len()).filter(|&i| matches!(entries[i], Entry::Update { .. })).collect();
                if ups.is_empty() {
                    continue;
                }
                let i = *r.pick(&ups);
                // more bits in the diff than nodes follow: the reader walks into the next entries / the padding
                let b = r.below(15);
                m[offs[i] + 1 + 32 + b] |= 1 << r.below(8);
                "extra diff bit"
            }
            9 => {
                for b in m.iter_mut() {
                    *b = r.next() as u8;
                }
                if r.chance(1, 2) {
                    m[0] = 1;
                }
                "random bytes"
            }
            10 => {
                let i = r.below(m.len());
                m[i] ^= 1 << r.below(8);
                "one bit flipped"
            }
            _ => {
                // cut right after the header / in the middle of an entry, zero-padded to a page multiple (a torn write)
                let cut = r.range(1, end_off);
                for b in m[cut..].iter_mut() {
                    *b = 0;
                }
                "zeroed tail"
            }
        };
        out.count(&format!("wal_malformed_{}", what.replace(' ', "_")));
        let res = read_line(out, dir, &m, what);
        if kind == 7 {
            // the reader must not look past the END tag
            match res {
                Some((s, es, true)) if s == seqn && es == entries => {}
                _ => out.fail(format!("C03 garbage after the END tag changed what the WAL reader returns (case {case})")),
            }
        }
    }
}

// ------------------------------------------------------------------------------------------------ page diff

fn pd_words(d: &PageDiff) -> String {
    let w = d.verif_words();
    format!("{} {}", w[0], w[1])
}

fn gen_words(r: &mut Rng) -> [u64; 2] {
    let (slots, _) = gen_slots(r);
    let mut w = [0u64; 2];
    for s in slots {
        w[s / 64] |= 1 << (s % 64);
    }
    match r.below(14) {
        0 => w[1] |= 1 << 63,
        1 => w[1] |= 1 << 62,
        2 => w[1] |= 3 << 62,
        _ => {}
    }
    w
}

fn gen_page(r: &mut Rng, len: usize) -> Vec<u8> {
    let mut p = vec![0u8; len];
    let style = r.below(3);
    for (i, c) in p.chunks_mut(32).enumerate() {
        if style == 0 || (style == 1 && r.chance(1, 2)) {
            for b in c.iter_mut() {
                *b = r.next() as u8;
            }
        } else if style == 2 {
            c[0] = i as u8 + 1;
        }
    }
    p
}

fn case_pagediff(r: &mut Rng, case: usize, out: &mut Sink) {
    out.mark_case(format!("case {case} pagediff"));
    // ---- set_changed / set_cleared sequences
    let start = if r.chance(1, 2) { [0u64; 2] } else { gen_words(r) };
    let nops = r.below(9);
    let ops: Vec<String> = (0..nops)
        .map(|_| match r.below(6) {
            0 => "X".to_string(),
            1 => format!("S{}", *r.pick(&[125usize, 126, 127, 128, 129, 200, 63, 64])),
            _ => format!("S{}", r.below(126)),
        })
        .collect();
    let op = format!("pdops {} {} {}", start[0], start[1], if ops.is_empty() { "-".into() } else { ops.join(",") });
    let res = catch_unwind(AssertUnwindSafe(|| {
        let mut d = PageDiff::verif_from_words(start);
        for o in &ops {
            if o == "X" {
                d.set_cleared();
            } else {
                d.set_changed(o[1..].parse().unwrap());
            }
        }
        (d.verif_words(), d.cleared(), d.count())
    }));
    match res {
        Ok((w, cl, cnt)) => {
            out.line(op.clone(), format!("ok {} {} cleared={} count={cnt}", w[0], w[1], cl as u8));
            // oracle: the map is the union of the start map and the slots set; the cleared flag is set iff the last op was X
            let mut exp = start;
            let mut clr = start[1] >> 63 == 1;
            for o in &ops {
                if o == "X" {
                    clr = true;
                } else {
                    let s: usize = o[1..].parse().unwrap();
                    exp[s / 64] |= 1 << (s % 64);
                    clr = false;
                }
            }
            exp[1] = (exp[1] & !(1 << 63)) | ((clr as u64) << 63);
            if exp != w || cl != clr {
                out.fail(format!("C16 PageDiff after {op} is {w:?} cleared={cl}, expected {exp:?} cleared={clr}"));
            }
        }
        Err(_) => out.line(op.clone(), "panic".into()),
    }
    out.nontrivial(&op);
    out.count("pd_ops");
    // ---- from_bytes
    let w = gen_words(r);
    let mut b16 = [0u8; 16];
    b16[..8].copy_from_slice(&w[0].to_le_bytes());
    b16[8..].copy_from_slice(&w[1].to_le_bytes());
    let got = PageDiff::from_bytes(b16);
    out.line(format!("pdfrom {}", hex(&b16)), match &got { None => "none".into(), Some(d) => format!("some {}", pd_words(d)) });
    match &got {
        None if w[1] >> 62 == 0 => out.fail(format!("C16 PageDiff::from_bytes rejected {w:?} (no reserved bit set)")),
        Some(_) if w[1] >> 62 != 0 => out.fail(format!("C16 PageDiff::from_bytes accepted {w:?} with a reserved bit set")),
        Some(d) if d.as_bytes() != b16 => out.fail(format!("C16 PageDiff as_bytes(from_bytes(b)) != b for {w:?}")),
        _ => {}
    }
    out.count("pd_from");
    // ---- join
    let a = gen_words(r);
    let b = gen_words(r);
    let j = PageDiff::verif_from_words(a).join(&PageDiff::verif_from_words(b));
    out.line(format!("pdjoin {} {} {} {}", a[0], a[1], b[0], b[1]), pd_words(&j));
    for s in 0..128 {
        if j.changed(s) != (PageDiff::verif_from_words(a).changed(s) || PageDiff::verif_from_words(b).changed(s)) {
            out.fail(format!("C16 PageDiff::join of {a:?} and {b:?}: slot {s} is not the union"));
        }
    }
    // ---- pack / unpack
    let w = gen_words(r);
    let d = PageDiff::verif_from_words(w);
    let plen = *r.pick(&[PAGE, PAGE, PAGE, PAGE, PAGE, PAGE, PAGE, PAGE, 4032, 4031, 2048, 2049, 32, 0]);
    let page = gen_page(r, plen);
    let op = format!("pdpack {} {} {}", w[0], w[1], blob(&page));
    let packed = catch_unwind(AssertUnwindSafe(|| d.pack_changed_nodes(&page).collect::<Vec<[u8; 32]>>()));
    match &packed {
        Ok(ns) => out.line(op.clone(), format!("ok {}", nodes_str(ns))),
        Err(_) => out.line(op.clone(), "panic".into()),
    }
    out.count("pd_pack");
    out.nontrivial(&op);
    // unpack: the packed nodes (or a wrong number of nodes) onto another page
    let nodes: Vec<[u8; 32]> = match (&packed, r.below(5)) {
        (Ok(ns), 0) => {
            let mut v = ns.clone();
            if r.chance(1, 2) {
                v.push(gen_node(r));
            } else {
                v.pop();
            }
            v
        }
        (Ok(ns), _) => ns.clone(),
        (Err(_), _) => (0..d.count()).map(|_| gen_node(r)).collect(),
    };
    let tlen = if r.chance(4, 5) { plen } else { *r.pick(&[PAGE, 4032, 64, 0]) };
    // a target that agrees with `page` outside the changed slots (when the lengths agree), random inside
    let mut target = gen_page(r, tlen);
    let agree = r.chance(2, 3) && tlen == plen;
    if agree {
        for i in 0..tlen {
            if !(i / 32 < 128 && d.changed(i / 32)) {
                target[i] = page[i];
            }
        }
    }
    let op = format!("pdunpack {} {} {} {}", w[0], w[1], nodes_str(&nodes), blob(&target));
    let mut t2 = target.clone();
    let un = catch_unwind(AssertUnwindSafe(|| {
        d.unpack_changed_nodes(&nodes, &mut t2);
    }));
    match un {
        Ok(()) => {
            out.line(op.clone(), format!("ok {}", blob(&t2)));
            if agree && packed.as_ref().map_or(false, |ns| *ns == nodes) && t2 != page {
                out.fail(format!("C03 unpack_changed_nodes(pack_changed_nodes(page)) onto a page that agrees outside the diff does not give the page back: {}", &op[..op.len().min(200)]));
            }
            // idempotence
            let mut t3 = t2.clone();
            d.unpack_changed_nodes(&nodes, &mut t3);
            if t3 != t2 {
                out.fail(format!("C03 applying the same changed nodes twice differs from applying them once: {}", &op[..op.len().min(200)]));
            }
            out.count("pd_unpack_ok");
        }
        Err(_) => {
            out.line(op.clone(), "panic".into());
            out.count("pd_unpack_panic");
        }
    }
    out.nontrivial(&op);
}

// ------------------------------------------------------------------------------------------------ recover

fn pages_str(pages: &[Vec<u8>]) -> String {
    let items: Vec<String> = pages.iter().enumerate().filter(|(_, p)| p.iter().any(|&b| b != 0)).map(|(i, p)| format!("{i}={}", blob(p))).collect();
    if items.is_empty() {
        "-".into()
    } else {
        items.join(";")
    }
}

struct Tbl {
    meta: Vec<u8>, // whole meta pages
    pages: Vec<Vec<u8>>,
}

fn write_table(dir: &str, t: &Tbl) {
    let mut f = std::fs::File::create(format!("{dir}/ht")).expect("create ht");
    f.write_all(&t.meta).unwrap();
    for p in &t.pages {
        f.write_all(p).unwrap();
    }
}

fn read_table(dir: &str, n: usize) -> Option<Tbl> {
    let b = std::fs::read(format!("{dir}/ht")).ok()?;
    let mp = (n + 4095) / 4096;
    if b.len() != (mp + n) * PAGE {
        return None;
    }
    Some(Tbl { meta: b[..mp * PAGE].to_vec(), pages: (0..n).map(|i| b[(mp + i) * PAGE..(mp + i + 1) * PAGE].to_vec()).collect() })
}

/// run the real `DB::open` (recover) on the table + WAL; one protocol line; returns the table afterwards
fn recover_line(out: &mut Sink, dir: &str, seqn: u32, seed: &[u8; 16], t: &Tbl, wal: &[u8], what: &str) -> Option<Tbl> {
    let n = t.pages.len();
    write_table(dir, t);
    std::fs::write(format!("{dir}/wal"), wal).unwrap();
    let op = format!("recover {seqn} {} {} {} {}", hex(seed), hex(&t.meta[..n]), pages_str(&t.pages), blob(wal));
    let ht = std::fs::OpenOptions::new().read(true).write(true).open(format!("{dir}/ht")).unwrap();
    let wf = std::fs::OpenOptions::new().read(true).write(true).open(format!("{dir}/wal")).unwrap();
    let seed2 = *seed;
    let res = catch_unwind(AssertUnwindSafe(move || open_and_recover(seqn, n as u32, seed2, ht, wf)));
    out.count("recover_lines");
    out.nontrivial(&op);
    match res {
        Err(_) => {
            out.line(op, "panic".into());
            out.count(&format!("recover_panic_{}", what.replace(' ', "_")));
            None
        }
        Ok(Err(e)) => {
            out.line(op, format!("err {}", err_kind(&format!("{e:#}"))));
            None
        }
        Ok(Ok(())) => {
            let Some(after) = read_table(dir, n) else {
                out.line(op, "ok unreadable".into());
                out.fail("C03 recover changed the size of the hash-table file".into());
                return None;
            };
            out.line(op, format!("ok meta={} pages={}", blob(&after.meta), pages_str(&after.pages)));
            let wl = std::fs::metadata(format!("{dir}/wal")).map(|m| m.len()).unwrap_or(1);
            if wl != 0 {
                out.fail(format!("C03 the WAL holds {wl} bytes after a successful recovery ({what})"));
            }
            Some(after)
        }
    }
}

fn case_recover(r: &mut Rng, case: usize, out: &mut Sink, dir: &str) {
    let n = *r.pick(&[1usize, 2, 3, 5, 8, 17, 40]);
    let mp = (n + 4095) / 4096;
    let mut seed = [0u8; 16];
    seed.copy_from_slice(&r.bytes32()[..16]);
    let seqn = gen_seqn(r);
    // ---- the table before the sync: some full buckets (random content, labelled), tombstones, empties
    let mut t = Tbl { meta: vec![0u8; mp * PAGE], pages: vec![vec![0u8; PAGE]; n] };
    let mut label_of: Vec<Option<[u8; 32]>> = vec![None; n];
    for b in 0..n {
        match r.below(4) {
            0 => {}
            1 => t.meta[b] = 0x7f,
            _ => {
                let pid = gen_pid(r);
                let mut p = gen_page(r, PAGE);
                for x in p[4032..4056].iter_mut() {
                    *x = 0;
                }
                p[4064..].copy_from_slice(&pid);
                t.pages[b] = p;
                t.meta[b] = 0x80 | (hash_raw_page_id(pid, &seed) >> 57) as u8;
                label_of[b] = Some(pid);
            }
        }
    }
    // stale garbage in free buckets (a tombstoned bucket keeps its old page)
    for b in 0..n {
        if t.meta[b] == 0x7f && r.chance(1, 2) {
            t.pages[b] = gen_page(r, PAGE);
        }
    }
    // ---- the sync: every bucket at most once
    let mut order: Vec<usize> = (0..n).collect();
    for i in (1..n).rev() {
        let j = r.below(i + 1);
        order.swap(i, j);
    }
    let ndirty = r.range(0, n.min(6));
    let mut entries: Vec<Entry> = vec![];
    let mut intended = Tbl { meta: t.meta.clone(), pages: t.pages.clone() };
    let omit = r.chance(1, 6); // the writer "forgets" a slot that differs (hypothesis of the redo oracle violated)
    let mut hypothesis_holds = true;
    for &b in order.iter().take(ndirty) {
        if label_of[b].is_some() && r.chance(1, 4) {
            entries.push(Entry::Clear(b as u64));
            intended.meta[b] = 0x7f;
            continue;
        }
        // the page the writer wants in bucket b: the old page of b (known bucket) or anything (fresh bucket)
        let pid = label_of[b].unwrap_or_else(|| gen_pid(r));
        let mut newp = if label_of[b].is_some() && r.chance(3, 4) { t.pages[b].clone() } else { gen_page(r, PAGE) };
        for x in newp[4032..4056].iter_mut() {
            *x = 0;
        }
        let (slots, kind) = gen_slots(r);
        out.count(&format!("recover_diff_{kind}"));
        for &s in &slots {
            if r.chance(3, 4) {
                newp[s * 32..s * 32 + 32].copy_from_slice(&gen_node(r));
            }
        }
        let elided = gen_u64(r);
        newp[4056..4064].copy_from_slice(&elided.to_le_bytes());
        newp[4064..].copy_from_slice(&pid);
        // the diff: every slot in which the new page differs from the bucket's content, plus the touched ones
        let mut ds: Vec<usize> = (0..126).filter(|&s| slots.contains(&s) || newp[s * 32..s * 32 + 32] != t.pages[b][s * 32..s * 32 + 32]).collect();
        let differing: Vec<usize> = (0..126).filter(|&s| newp[s * 32..s * 32 + 32] != t.pages[b][s * 32..s * 32 + 32]).collect();
        if omit && !differing.is_empty() {
            let victim = *r.pick(&differing);
            ds.retain(|&s| s != victim);
            hypothesis_holds = false;
            out.count("recover_diff_omits_a_differing_slot");
        }
        if newp[4032..4056] != t.pages[b][4032..4056] {
            hypothesis_holds = false; // bytes 4032..4056 are in no slot: redo keeps the old ones
            out.count("recover_gap_differs");
        }
        let d = diff_of_slots(r, &ds);
        let nodes: Vec<[u8; 32]> = d.pack_changed_nodes(&newp).collect();
        entries.push(Entry::Update { pid, diff: d.verif_words(), nodes, elided, bucket: b as u64 });
        intended.pages[b] = newp;
        intended.meta[b] = 0x80 | (hash_raw_page_id(pid, &seed) >> 57) as u8;
    }
    // ---- malformed variants (rare): buckets out of range
    let bad = r.below(10);
    if bad == 0 {
        let b = *r.pick(&[n as u64, n as u64 + 1, (mp * PAGE - 1) as u64, (mp * PAGE) as u64, u64::MAX, 1 << 40]);
        entries.push(if r.chance(1, 2) { Entry::Clear(b) } else { Entry::Update { pid: gen_pid(r), diff: [0, 0], nodes: vec![], elided: 0, bucket: b } });
        hypothesis_holds = false;
        out.count("recover_bucket_out_of_range");
    }
    let mut ops = vec![Op::Reset(if r.chance(1, 8) { seqn.wrapping_add(1 + r.below(3) as u32) } else { seqn })];
    let stale = matches!(ops[0], Op::Reset(s) if s != seqn);
    for e in &entries {
        ops.push(Op::Entry(e.clone()));
    }
    ops.push(Op::Finalize);
    let Some(mut wal) = real_build(None, &ops) else {
        out.fail(format!("C03 WalBlobBuilder panicked in a recover case (case {case})"));
        return;
    };
    // a WAL that fails in the middle of the redo loop (bad tag / reserved bits / cut short): `open` must fail, not panic
    if bad == 1 {
        let body: usize = 6 + entries.iter().map(|e| e.size()).sum::<usize>();
        match r.below(3) {
            0 => wal[body - 1] = *r.pick(&[0u8, 5, 255]),
            1 => {
                let cut = r.range(5, body - 1);
                for b in wal[cut..].iter_mut() {
                    *b = 0;
                }
            }
            _ => {
                let i = r.range(5, body - 1);
                wal[i] ^= 1 << r.below(8);
            }
        }
        hypothesis_holds = false;
        out.count("recover_corrupt_wal");
    }
    out.mark_case(format!("case {case} recover buckets={n} entries={} stale={stale} bad={}", entries.len(), bad == 0));
    // ---- start states: the old table, or the old table with a part of the write-out already done
    let mut start = Tbl { meta: t.meta.clone(), pages: t.pages.clone() };
    let partial = r.below(3);
    if partial > 0 && hypothesis_holds && !stale {
        for b in 0..n {
            if r.chance(1, 2) {
                start.pages[b] = intended.pages[b].clone();
            }
        }
        if r.chance(1, 2) {
            start.meta = intended.meta.clone();
        }
        out.count("recover_from_partial_writeout");
    }
    let what = if stale { "stale WAL" } else if bad == 0 { "out-of-range bucket" } else if bad == 1 { "corrupt WAL" } else { "matching WAL" };
    let after = recover_line(out, dir, seqn, &seed, &start, &wal, what);
    let Some(after) = after else {
        if bad > 1 {
            out.fail(format!("C03 recovery of a WAL written by the builder failed (case {case}, {n} buckets, {} entries)", entries.len()));
        }
        return;
    };
    if stale {
        if after.meta != start.meta || after.pages != start.pages {
            out.fail(format!("C03 a WAL of another sync changed the hash table (case {case})"));
        }
        out.count("recover_stale");
        return;
    }
    if hypothesis_holds {
        if after.pages != intended.pages {
            let b = (0..n).find(|&b| after.pages[b] != intended.pages[b]).unwrap();
            out.fail(format!("C03 redo: bucket {b} does not hold the page the writer intended after recovery (case {case}, {n} buckets)"));
        }
        if after.meta != intended.meta {
            out.fail(format!("C03 redo: meta bytes after recovery differ from the writer's meta map (case {case})"));
        }
        out.count("recover_redo_checked");
    }
    // ---- crash during recovery: recover again from the recovered table (the WAL was not truncated yet)
    if bad > 1 {
        if let Some(again) = recover_line(out, dir, seqn, &seed, &after, &wal, "second recovery") {
            if again.meta != after.meta || again.pages != after.pages {
                out.fail(format!("C03 redo is not idempotent: recovering twice differs from recovering once (case {case})"));
            }
            out.count("recover_idempotence_checked");
        }
    }
}

// ------------------------------------------------------------------------------------------------ real crash images

/// C03 on REAL crash images (called by the crash / power-loss enumeration with `--wal-driver <nomt_model>`): if the
/// crashed directory `d` holds a non-empty WAL, run the real `bitbox::recover` (through `DB::open`, in-process) on a
/// copy of its `ht` / `wal`, then let the Lean driver read the crashed WAL with its reader mirror, apply its redo to
/// the crashed `ht` and compare with the recovered copy (`walredo`).  The harness itself checks that the real
/// recovery changed no page the model does not name.
pub fn monitor_crash_image(out: &mut Sink, driver: &str, d: &str, desc: &str) {
    let wal_len = std::fs::metadata(format!("{d}/wal")).map(|m| m.len()).unwrap_or(0);
    if wal_len == 0 {
        out.count("wal_images_empty");
        return;
    }
    let Ok(meta) = std::fs::read(format!("{d}/meta")) else { return };
    if meta.len() < 64 {
        return;
    }
    let seqn = u32::from_le_bytes(meta[24..28].try_into().unwrap());
    let n = u32::from_le_bytes(meta[28..32].try_into().unwrap());
    let mut seed = [0u8; 16];
    seed.copy_from_slice(&meta[32..48]);
    let r = format!("{d}.wr");
    let _ = std::fs::remove_dir_all(&r);
    if std::fs::create_dir_all(&r).is_err() {
        return;
    }
    for f in ["ht", "wal", "meta"] {
        if crate::image::sparse_copy(std::path::Path::new(&format!("{d}/{f}")), std::path::Path::new(&format!("{r}/{f}"))).is_err() {
            let _ = std::fs::remove_dir_all(&r);
            return;
        }
    }
    let open = |f: &str| std::fs::OpenOptions::new().read(true).write(true).open(format!("{r}/{f}"));
    let (Ok(ht), Ok(wf)) = (open("ht"), open("wal")) else {
        let _ = std::fs::remove_dir_all(&r);
        return;
    };
    let verdict = match catch_unwind(AssertUnwindSafe(move || open_and_recover(seqn, n, seed, ht, wf))) {
        Err(_) => "panic".to_string(),
        Ok(Err(e)) => format!("err {}", err_kind(&format!("{e:#}"))),
        Ok(Ok(())) => "ok".to_string(),
    };
    out.count("wal_images_checked");
    if verdict != "ok" {
        out.fail(format!("C03 bitbox recovery of a crashed directory fails ({verdict}) after {desc}"));
    }
    let res = std::process::Command::new(driver)
        .arg("wal")
        .stdin(std::process::Stdio::piped())
        .stdout(std::process::Stdio::piped())
        .stderr(std::process::Stdio::null())
        .spawn()
        .and_then(|mut c| {
            c.stdin.take().unwrap().write_all(format!("walredo {d} {r} {verdict}\n").as_bytes())?;
            c.wait_with_output()
        });
    match res {
        Err(e) => out.fail(format!("C03 WAL driver could not be run: {e}")),
        Ok(o) => {
            let line = String::from_utf8_lossy(&o.stdout).lines().next().unwrap_or("").to_string();
            if !line.starts_with("ok ") {
                out.fail(format!("C03 WAL redo monitor: {} after {desc}", line.chars().take(300).collect::<String>()));
            } else {
                let field = |k: &str| line.split(' ').find_map(|t| t.strip_prefix(k)).unwrap_or("").to_string();
                let list = |s: String| -> std::collections::BTreeSet<usize> { s.split('.').filter_map(|x| x.parse().ok()).collect() };
                out.count(&format!("wal_images_{}", field("state=")));
                out.add("wal_image_entries", field("entries=").parse().unwrap_or(0));
                // the complement: no other page of ht changed
                let buckets = list(field("buckets="));
                let metas = list(field("metas="));
                if let (Ok(a), Ok(b)) = (std::fs::read(format!("{d}/ht")), std::fs::read(format!("{r}/ht"))) {
                    let mp = (n as usize + 4095) / 4096;
                    if a.len() != b.len() {
                        out.fail(format!("C03 recovery changed the size of ht after {desc}"));
                    } else {
                        for pn in 0..a.len() / PAGE {
                            if a[pn * PAGE..(pn + 1) * PAGE] == b[pn * PAGE..(pn + 1) * PAGE] {
                                continue;
                            }
                            let named = if pn < mp { metas.iter().any(|m| m / PAGE == pn) } else { buckets.contains(&(pn - mp)) };
                            if !named {
                                out.fail(format!("C03 recovery changed page {pn} of ht, which no WAL entry names, after {desc}"));
                                break;
                            }
                        }
                        if !buckets.is_empty() || !metas.is_empty() {
                            out.nontrivial(&format!("{desc} {line}"));
                        }
                    }
                }
            }
        }
    }
    let _ = std::fs::remove_dir_all(&r);
}
