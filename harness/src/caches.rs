//! `caches`: the REAL `PageCache`, `LeafCache` and `PageSet` (hook H21, `nomt::verif_api::caches`) driven through
//! generated operation sequences, line by line against the Lean mirror (`nomt_model caches`,
//! `lean/NomtModel/Store/CacheModel.lean` — the definitions the theorems of `Props/C13_Caches.lean` are about).
//!
//! A case is one cache instance with its configuration (page cache: 1…64 shards — also 0 / 65 / 100 —, size 0 / 1 /
//! 2 / 2^44 MiB, pinned levels 0…3, per-root-child limit 1…3 set through the hook, root page present or not; leaf
//! cache: 1…64 shards, size 0 / 1 MiB, `max_items` 0…3 per shard) and 20…60 operations over a small universe of page
//! ids at depths around the pinned depth (resp. of recycled page numbers):
//!   page cache  read (= `get`, on a miss load from the reference store and `insert`, what `seek.rs` does), commit
//!               (`batch_update` of changed / removed pages, the reference store updated with the same list), `evict`,
//!               prepopulation (`insert` of stored pages of depth 1…levels), bare `get` / `insert`
//!   leaf cache  lookup (`lookup_blocking`), peek (`get` alone: leaf stage, read transactions), sync (new leaves
//!               written at fresh or RECYCLED page numbers, then `PostIoWork::run` inserts them, then `evict`), `evict`
//!   page set    insert / get / contains / freeze + restart with or without the warmed-up map
//! After every call the whole contents (pinned map sorted, LRU most recent first, limits, root slot) are printed.
//! A fraction of the cases leaves the callers' protocol on purpose (an `insert` of a page that is NOT the stored one,
//! a lookup between a leaf write and its `insert`): there only the line-by-line comparison applies.
//!
//! Oracles (independent of Lean):
//!   C13  a cached read returns exactly what the reference store holds (page cache and leaf cache), whatever the
//!        configuration; every cached entry equals the reference store's value (coherence, checked on the dump);
//!        after `evict` no LRU exceeds its limit, the limits add up to at most the configured budget;
//!        an entry never moves between shards; the leaf shard of a page number is a function of the number
//!   C02  a page of depth 1…levels that was inserted / committed and not removed since is in the pinned map with the
//!        stored value after every later call (never evicted, read from where `insert` wrote it)
use crate::util::*;
use nomt::verif_api::caches::{LeafCacheSim, PageCacheSim, PageSetSim};
use nomt_core::page_id::{ChildPageIndex, PageId, ROOT_PAGE_ID};
use std::collections::{BTreeMap, BTreeSet};
use std::panic::{catch_unwind, AssertUnwindSafe};

type Pid = Vec<u8>;

fn pid_of(p: &Pid) -> PageId {
    let mut id = ROOT_PAGE_ID;
    for c in p {
        id = id
            .child_page_id(ChildPageIndex::new(*c).unwrap())
            .unwrap();
    }
    id
}

fn pid_back(id: &PageId) -> Pid {
    (0..id.depth())
        .map(|l| id.child_index_at_level(l).to_u8())
        .collect()
}

fn pid_str(p: &Pid) -> String {
    if p.is_empty() {
        "r".into()
    } else {
        p.iter().map(|c| c.to_string()).collect::<Vec<_>>().join(".")
    }
}

fn ent(e: &Option<(u64, u64)>) -> String {
    match e {
        None => "-".into(),
        Some((t, b)) => format!("{t}/{b}"),
    }
}

fn quiet<T>(f: impl FnOnce() -> T) -> Result<T, ()> {
    catch_unwind(AssertUnwindSafe(f)).map_err(|_| ())
}

// ---------------------------------------------------------------- page cache

struct PcDump {
    root: Option<(u64, u64)>,
    shards: Vec<(usize, Vec<(Pid, u64, u64)>, Vec<(Pid, u64, u64)>)>,
}

fn pc_dump(sim: &PageCacheSim) -> PcDump {
    let (root, shards) = sim.dump();
    PcDump {
        root,
        shards: shards
            .into_iter()
            .map(|s| {
                let f = |v: Vec<(PageId, u64, u64)>| {
                    v.into_iter().map(|(id, t, b)| (pid_back(&id), t, b)).collect::<Vec<_>>()
                };
                (s.page_limit, f(s.fixed), f(s.lru))
            })
            .collect(),
    }
}

fn items_str(v: &[(Pid, u64, u64)]) -> String {
    v.iter()
        .map(|(p, t, b)| format!("{}={t}/{b}", pid_str(p)))
        .collect::<Vec<_>>()
        .join(",")
}

fn pc_dump_str(d: &PcDump, with_limits: bool) -> String {
    let mut s = format!("root={}", ent(&d.root));
    if with_limits {
        // run-length coded limits
        let mut parts: Vec<(usize, usize)> = Vec::new();
        for (l, _, _) in &d.shards {
            match parts.last_mut() {
                Some((v, n)) if *v == *l => *n += 1,
                _ => parts.push((*l, 1)),
            }
        }
        s += &format!(
            " limits={}",
            parts.iter().map(|(v, n)| format!("{v}*{n}")).collect::<Vec<_>>().join(",")
        );
    }
    for (i, (_, f, l)) in d.shards.iter().enumerate() {
        if !f.is_empty() || !l.is_empty() {
            s += &format!(" {i}:F[{}]L[{}]", items_str(f), items_str(l));
        }
    }
    s
}

struct PcCase {
    store: BTreeMap<Pid, (u64, u64)>,
    pinned: BTreeSet<Pid>,
    fl: usize,
    coherent: bool,
    home: BTreeMap<Pid, usize>,
    ctx: String,
}

fn pc_check(out: &mut Sink, c: &mut PcCase, d: &PcDump, after_evict: bool) {
    if !c.coherent {
        return;
    }
    if let Some(r) = d.root {
        if c.store.get(&vec![]) != Some(&r) {
            out.fail(format!("C13 page cache: the root slot holds {r:?}, the store {:?} ({})", c.store.get(&vec![]), c.ctx));
        }
    }
    for (i, (limit, f, l)) in d.shards.iter().enumerate() {
        for (p, t, b) in f.iter().chain(l.iter()) {
            if c.store.get(p) != Some(&(*t, *b)) {
                out.fail(format!(
                    "C13 page cache: cached entry {}={t}/{b} differs from the stored page {:?} ({})",
                    pid_str(p), c.store.get(p), c.ctx
                ));
            }
            if let Some(h) = c.home.insert(p.clone(), i) {
                if h != i {
                    out.fail(format!("C13 page cache: page {} moved from shard {h} to {i} ({})", pid_str(p), c.ctx));
                }
            }
        }
        for (p, _, _) in f {
            if p.len() > c.fl {
                out.fail(format!("C02 page cache: page {} of depth {} in the pinned map, levels {} ({})", pid_str(p), p.len(), c.fl, c.ctx));
            }
        }
        for (p, _, _) in l {
            if p.len() <= c.fl {
                out.fail(format!("C02 page cache: page {} of pinned depth {} sits in the LRU, levels {} ({})", pid_str(p), p.len(), c.fl, c.ctx));
            }
        }
        if after_evict && l.len() > *limit {
            out.fail(format!("C13 page cache: shard {i} holds {} > limit {limit} pages after evict ({})", l.len(), c.ctx));
        }
    }
    for p in &c.pinned {
        let want = c.store.get(p);
        let found = d.shards.iter().find_map(|(_, f, _)| f.iter().find(|(q, _, _)| q == p));
        match (want, found) {
            (Some(w), Some((_, t, b))) if *w == (*t, *b) => {}
            _ => out.fail(format!(
                "C02 page cache: pinned page {} (stored {:?}) is {:?} in the pinned map ({})",
                pid_str(p), want, found.map(|(_, t, b)| (*t, *b)), c.ctx
            )),
        }
    }
}

fn pc_case(rng: &mut Rng, out: &mut Sink, case: usize) {
    let shards = if rng.chance(1, 12) { *rng.pick(&[0usize, 65, 100]) } else { *rng.pick(&[1usize, 1, 2, 3, 5, 7, 12, 33, 63, 64]) };
    let size = if rng.chance(1, 12) { *rng.pick(&[1usize << 44, (1 << 44) - 1, 1 << 54]) } else { *rng.pick(&[0usize, 0, 1, 1, 1, 2, 16]) };
    let fl = rng.below(4);
    let mut next_tag = 1u64;
    let mut tag = || { next_tag += 1; next_tag };
    let root = if rng.chance(1, 2) { Some((tag(), 7000 + rng.below(50) as u64)) } else { None };
    let ctx = format!("case {case} shards={shards} size={size} levels={fl}");
    let dbg = cfg!(debug_assertions) as u8;
    let op = format!("pc new {dbg} {shards} {size} {fl} {}", ent(&root));
    let sim = quiet(|| PageCacheSim::new(root, shards, size, fl));
    let mut sim = match sim {
        Err(()) => {
            out.line(op, "panic".into());
            out.count(&format!("pc_new_panic_shards{}_size{}", if (1..=64).contains(&shards) { "ok" } else { "bad" }, if size == 0 { "0" } else if size >= (1 << 44) { "huge" } else { "ok" }));
            // oracle C13: a valid configuration must not panic; `page_cache_size(0)` is one (finding F25, repaired:
            // one page per shard)
            if (1..=64).contains(&shards) && size < (1 << 44) {
                out.fail(format!("C13 page cache: PageCache::new panics on a valid configuration ({ctx})"));
            }
            return;
        }
        Ok(s) => s,
    };
    let d = pc_dump(&sim);
    out.line(op, format!("ok {}", pc_dump_str(&d, true)));
    let budget = size.wrapping_mul(1 << 20) / 4096;
    if size == 0 {
        out.count("pc_new_size0_one_page_per_shard");
        if d.shards.iter().any(|s| s.0 != 1) {
            out.fail(format!("C13 page cache: page_cache_size(0) must give every shard a limit of one page ({ctx})"));
        }
    } else if d.shards.iter().map(|s| s.0).sum::<usize>() > budget {
        out.fail(format!("C13 page cache: the shard limits add up to more than the budget of {budget} pages ({ctx})"));
    }
    if d.shards.len() != shards {
        out.fail(format!("C13 page cache: {} shards for commit_concurrency {shards}", d.shards.len()));
    }
    // tiny limits through the hook (a size-0 cache keeps its own limit of one page per shard half of the time)
    if rng.chance(if size == 0 { 5 } else { 9 }, 10) {
        let per = if rng.chance(1, 25) { 0 } else { rng.range(1, 3) };
        let op = format!("pc limit {per}");
        match quiet(AssertUnwindSafe(|| sim.set_limit_per_root_child(per))) {
            Err(()) => {
                out.line(op, "panic".into());
                out.count("pc_limit_zero_panics");
                return;
            }
            Ok(()) => {
                let d = pc_dump(&sim);
                out.line(op, format!("ok {}", pc_dump_str(&d, true)));
            }
        }
    }
    // universe: ids at depths 0..fl+2 under 2-3 root children
    let tops: Vec<u8> = (0..rng.range(1, 3)).map(|_| if rng.chance(1, 3) { *rng.pick(&[0u8, 63, 31, 32]) } else { rng.below(64) as u8 }).collect();
    let mut universe: Vec<Pid> = vec![vec![]];
    for _ in 0..rng.range(6, 14) {
        let depth = if rng.chance(2, 3) { (fl + rng.below(3)).max(1).saturating_sub(rng.below(2)).max(1) } else { rng.range(1, fl + 2) };
        let mut p = vec![*rng.pick(&tops)];
        while p.len() < depth {
            p.push(*rng.pick(&[0u8, 1, 63, 5]));
        }
        if !universe.contains(&p) {
            universe.push(p);
        }
    }
    let mut c = PcCase { store: BTreeMap::new(), pinned: BTreeSet::new(), fl, coherent: true, home: BTreeMap::new(), ctx: ctx.clone() };
    if let Some(r) = root {
        c.store.insert(vec![], r);
    }
    // the pages the hash table holds when the store is opened (nothing of it is cached yet)
    for p in universe.iter().skip(1) {
        if rng.chance(1, 2) {
            c.store.insert(p.clone(), (tag(), 100 + rng.below(900) as u64));
        }
    }
    let break_protocol = rng.chance(1, 6);
    let nops = rng.range(20, 60);
    let mut sig = format!("pc s{shards} f{fl}");
    for step in 0..nops {
        c.ctx = format!("{ctx} step {step}");
        let k = rng.below(100);
        if k < 40 {
            // cached read
            let p = rng.pick(&universe).clone();
            let st = c.store.get(&p).copied();
            let hit = sim.get(pid_of(&p));
            let res = match hit {
                Some(e) => { out.count("pc_read_hit"); Some(e) }
                None => match st {
                    Some((t, b)) => {
                        out.count("pc_read_miss_fill");
                        let got = sim.insert(pid_of(&p), t, b);
                        Some((got, b))
                    }
                    None => { out.count("pc_read_miss_absent"); None }
                },
            };
            if c.coherent && res != st {
                out.fail(format!("C13 page cache: cached read of {} gives {res:?}, the store holds {st:?} ({})", pid_str(&p), c.ctx));
            }
            if st.is_some() && (1..=fl).contains(&p.len()) {
                c.pinned.insert(p.clone());
            }
            let d = pc_dump(&sim);
            out.line(format!("pc read {} {}", pid_str(&p), ent(&st)), format!("{} | {}", ent(&res), pc_dump_str(&d, false)));
            pc_check(out, &mut c, &d, false);
            sig += if hit.is_some() { "h" } else { "m" };
        } else if k < 65 {
            // commit
            let n = rng.range(1, 5);
            let mut ups: Vec<(Pid, Option<(u64, u64)>)> = Vec::new();
            for _ in 0..n {
                let p = rng.pick(&universe).clone();
                if ups.iter().any(|(q, _)| *q == p) && !rng.chance(1, 8) {
                    continue;
                }
                let e = if rng.chance(1, 4) && !p.is_empty() { None } else {
                    let b = c.store.get(&p).map(|x| x.1).unwrap_or(100 + rng.below(900) as u64);
                    Some((tag(), b))
                };
                ups.push((p, e));
            }
            for (p, e) in &ups {
                match e {
                    Some(x) => {
                        c.store.insert(p.clone(), *x);
                        if (1..=fl).contains(&p.len()) {
                            c.pinned.insert(p.clone());
                        }
                    }
                    None => {
                        c.store.remove(p);
                        c.pinned.remove(p);
                    }
                }
                out.count(if e.is_some() { "pc_commit_update" } else { "pc_commit_remove" });
            }
            sim.batch_update(ups.iter().map(|(p, e)| (pid_of(p), *e)).collect());
            let d = pc_dump(&sim);
            out.line(
                format!("pc batch {}", ups.iter().map(|(p, e)| format!("{}={}", pid_str(p), ent(e))).collect::<Vec<_>>().join(",")),
                format!("ok | {}", pc_dump_str(&d, false)),
            );
            pc_check(out, &mut c, &d, false);
            sig += "c";
        } else if k < 80 {
            sim.evict();
            let d = pc_dump(&sim);
            out.line("pc evict".into(), format!("ok | {}", pc_dump_str(&d, false)));
            out.count("pc_evict");
            pc_check(out, &mut c, &d, true);
            sig += "e";
        } else if k < 88 {
            // prepopulation: insert of stored pages of depth 1..=fl
            let ids: Vec<Pid> = c.store.keys().filter(|p| (1..=fl).contains(&p.len())).cloned().collect();
            for p in ids {
                let (t, b) = c.store[&p];
                let got = sim.insert(pid_of(&p), t, b);
                if c.coherent && got != t {
                    out.fail(format!("C13 page cache: prepopulating {} returns {got}, stored {t} ({})", pid_str(&p), c.ctx));
                }
                c.pinned.insert(p.clone());
                let d = pc_dump(&sim);
                out.line(format!("pc insert {} {t} {b}", pid_str(&p)), format!("{got} | {}", pc_dump_str(&d, false)));
                pc_check(out, &mut c, &d, false);
                out.count("pc_prepopulate_insert");
            }
            sig += "p";
        } else if k < 94 {
            let p = rng.pick(&universe).clone();
            let res = sim.get(pid_of(&p));
            let d = pc_dump(&sim);
            out.line(format!("pc get {}", pid_str(&p)), format!("{} | {}", ent(&res), pc_dump_str(&d, false)));
            if c.coherent && res.is_some() && res != c.store.get(&p).copied() {
                out.fail(format!("C13 page cache: get {} gives {res:?}, the store holds {:?} ({})", pid_str(&p), c.store.get(&p), c.ctx));
            }
            let idx = sim.shard_index_for(&pid_of(&p));
            out.line(format!("pc idx {}", pid_str(&p)), idx.map(|i| i.to_string()).unwrap_or("root".into()));
            out.count("pc_bare_get");
            pc_check(out, &mut c, &d, false);
        } else if break_protocol {
            // an insert of a page that is not the stored one: outside the callers' protocol
            let p = rng.pick(&universe).clone();
            let (t, b) = (tag(), 5000 + rng.below(10) as u64);
            let got = sim.insert(pid_of(&p), t, b);
            c.coherent = false;
            let d = pc_dump(&sim);
            out.line(format!("pc insert {} {t} {b}", pid_str(&p)), format!("{got} | {}", pc_dump_str(&d, false)));
            out.count("pc_outside_protocol_insert");
            sig += "x";
        }
    }
    out.count(&format!("pc_levels_{fl}"));
    out.count(if c.coherent { "pc_case_in_protocol" } else { "pc_case_outside_protocol" });
    out.nontrivial(&sig);
}

// ---------------------------------------------------------------- leaf cache

fn lc_dump_str(d: &[(usize, Vec<(u32, u64)>)], with_max: bool) -> String {
    let mut s = String::new();
    if with_max {
        let mut parts: Vec<(usize, usize)> = Vec::new();
        for (m, _) in d {
            match parts.last_mut() {
                Some((v, n)) if *v == *m => *n += 1,
                _ => parts.push((*m, 1)),
            }
        }
        s += &format!("max={}", parts.iter().map(|(v, n)| format!("{v}*{n}")).collect::<Vec<_>>().join(","));
    }
    for (i, (_, l)) in d.iter().enumerate() {
        if !l.is_empty() {
            s += &format!(" {i}:[{}]", l.iter().map(|(p, t)| format!("{p}={t}")).collect::<Vec<_>>().join(","));
        }
    }
    if s.is_empty() { "-".into() } else { s.trim().to_string() }
}

struct LcCase {
    disk: BTreeMap<u32, u64>,
    dirty: BTreeSet<u32>,
    coherent: bool,
    ctx: String,
}

fn lc_check(out: &mut Sink, c: &LcCase, sim: &LeafCacheSim, d: &[(usize, Vec<(u32, u64)>)], after_evict: bool) {
    if !c.coherent {
        return;
    }
    for (i, (max, l)) in d.iter().enumerate() {
        for (pn, t) in l {
            if !c.dirty.contains(pn) && c.disk.get(pn) != Some(t) {
                out.fail(format!("C13 leaf cache: cached leaf {pn}={t} differs from the leaf stored at that page number {:?} ({})", c.disk.get(pn), c.ctx));
            }
            if sim.shard_index_for(*pn) != i {
                out.fail(format!("C13 leaf cache: page number {pn} sits in shard {i}, its shard is {} ({})", sim.shard_index_for(*pn), c.ctx));
            }
        }
        if after_evict && l.len() > *max {
            out.fail(format!("C13 leaf cache: shard {i} holds {} > max_items {max} after evict ({})", l.len(), c.ctx));
        }
    }
}

fn lc_case(rng: &mut Rng, out: &mut Sink, case: usize) {
    let shards = if rng.chance(1, 15) { 0 } else { *rng.pick(&[1usize, 1, 2, 3, 8, 32, 64]) };
    let size = if rng.chance(1, 12) { *rng.pick(&[1usize << 44, 1 << 54]) } else { *rng.pick(&[0usize, 1, 1, 2]) };
    let dbg = cfg!(debug_assertions) as u8;
    let ctx = format!("case {case} leaf shards={shards} size={size}");
    let op = format!("lc new {dbg} {shards} {size}");
    let mut sim = match quiet(|| LeafCacheSim::new(shards, size)) {
        Err(()) => {
            out.line(op, "panic".into());
            out.count("lc_new_panic");
            if shards >= 1 && size < (1 << 44) {
                out.fail(format!("C13 leaf cache: LeafCache::new panics on a valid configuration ({ctx})"));
            }
            return;
        }
        Ok(s) => s,
    };
    let d = sim.dump();
    out.line(op, format!("ok {}", lc_dump_str(&d, true)));
    if d.iter().map(|s| s.0).sum::<usize>() > size.wrapping_mul(1 << 20) / 4096 {
        out.fail(format!("C13 leaf cache: max_items add up to more than the budget ({ctx})"));
    }
    let max = if rng.chance(9, 10) {
        let m = rng.below(4);
        sim.set_max_items(m);
        let d = sim.dump();
        out.line(format!("lc max {m}"), format!("ok {}", lc_dump_str(&d, true)));
        m
    } else {
        d[0].0
    };
    let npn = rng.range(3, 9) as u32;
    let base = *rng.pick(&[1u32, 1, 1000, u32::MAX - 20]);
    let mut next_tag = 10u64;
    let mut c = LcCase { disk: BTreeMap::new(), dirty: BTreeSet::new(), coherent: true, ctx: ctx.clone() };
    // the leaves of the initial tree
    for i in 0..npn {
        if rng.chance(2, 3) {
            next_tag += 1;
            c.disk.insert(base + i, next_tag);
        }
    }
    let break_protocol = rng.chance(1, 6);
    let nops = rng.range(20, 60);
    let mut sig = format!("lc s{shards} m{max}");
    let shard_of = |sim: &LeafCacheSim, pn: u32| sim.shard_index_for(pn);
    for step in 0..nops {
        c.ctx = format!("{ctx} step {step}");
        let k = rng.below(100);
        let live: Vec<u32> = c.disk.keys().copied().filter(|p| !c.dirty.contains(p)).collect();
        if k < 40 && !live.is_empty() {
            // lookup_blocking
            let pn = *rng.pick(&live);
            let st = c.disk[&pn];
            let hit = sim.get(pn);
            let res = match hit {
                Some(t) => { out.count("lc_lookup_hit"); t }
                None => { out.count("lc_lookup_miss_fill"); sim.insert(pn, st); st }
            };
            if c.coherent && res != st {
                out.fail(format!("C13 leaf cache: cached lookup of page number {pn} gives leaf {res}, the store holds {st} ({})", c.ctx));
            }
            let d = sim.dump();
            out.line(format!("lc lookup {} {pn} {st}", shard_of(&sim, pn)), format!("{res} | {}", lc_dump_str(&d, false)));
            lc_check(out, &c, &sim, &d, false);
            sig += if hit.is_some() { "h" } else { "m" };
        } else if k < 52 && !live.is_empty() {
            // get alone (leaf stage / read transaction): a miss reads the store, nothing is inserted
            let pn = *rng.pick(&live);
            let res = sim.get(pn);
            if c.coherent && res.is_some() && res != c.disk.get(&pn).copied() {
                out.fail(format!("C13 leaf cache: get of page number {pn} gives leaf {res:?}, the store holds {:?} ({})", c.disk.get(&pn), c.ctx));
            }
            let d = sim.dump();
            out.line(format!("lc get {} {pn}", shard_of(&sim, pn)), format!("{} | {}", res.map(|t| t.to_string()).unwrap_or("-".into()), lc_dump_str(&d, false)));
            out.count("lc_peek");
            lc_check(out, &c, &sim, &d, false);
        } else if k < 85 {
            // a sync: some live leaves are replaced (their page numbers released), the new leaves go to fresh or
            // recycled page numbers; writes first, then PostIoWork::run, then evict
            let n = rng.range(1, 4);
            let mut written: Vec<(u32, u64)> = Vec::new();
            for _ in 0..n {
                let pn = base + rng.below(npn as usize) as u32;
                if written.iter().any(|(p, _)| *p == pn) {
                    continue;
                }
                next_tag += 1;
                if c.disk.contains_key(&pn) { out.count("lc_sync_recycled_page_number"); } else { out.count("lc_sync_fresh_page_number"); }
                c.disk.insert(pn, next_tag);
                c.dirty.insert(pn);
                written.push((pn, next_tag));
            }
            if break_protocol && rng.chance(1, 3) {
                // a lookup between the write and the insert: outside the protocol
                let (pn, st) = written[0];
                let hit = sim.get(pn);
                let res = match hit { Some(t) => t, None => { sim.insert(pn, st); st } };
                c.coherent = false;
                let d = sim.dump();
                out.line(format!("lc lookup {} {pn} {st}", shard_of(&sim, pn)), format!("{res} | {}", lc_dump_str(&d, false)));
                out.count("lc_outside_protocol_lookup");
                if res != st { out.count("lc_outside_protocol_lookup_stale"); }
            }
            for (pn, t) in &written {
                sim.insert(*pn, *t);
                c.dirty.remove(pn);
                let d = sim.dump();
                out.line(format!("lc insert {} {pn} {t}", shard_of(&sim, *pn)), format!("ok | {}", lc_dump_str(&d, false)));
                lc_check(out, &c, &sim, &d, false);
            }
            sim.evict();
            let d = sim.dump();
            out.line("lc evict".into(), format!("ok | {}", lc_dump_str(&d, false)));
            lc_check(out, &c, &sim, &d, true);
            sig += "s";
        } else {
            sim.evict();
            let d = sim.dump();
            out.line("lc evict".into(), format!("ok | {}", lc_dump_str(&d, false)));
            out.count("lc_evict");
            lc_check(out, &c, &sim, &d, true);
            sig += "e";
        }
    }
    out.count(&format!("lc_max_items_{max}"));
    out.count(if c.coherent { "lc_case_in_protocol" } else { "lc_case_outside_protocol" });
    out.nontrivial(&sig);
}

// ---------------------------------------------------------------- page set

fn ps_case(rng: &mut Rng, out: &mut Sink, case: usize) {
    let mut sim = PageSetSim::new();
    out.line("ps new".into(), "ok".into());
    let universe: Vec<Pid> = (0..rng.range(2, 6)).map(|_| (0..rng.below(4)).map(|_| *rng.pick(&[0u8, 1, 63])).collect()).collect();
    let mut map: BTreeMap<Pid, (u64, u64)> = BTreeMap::new();
    let mut warm: Option<BTreeMap<Pid, (u64, u64)>> = None;
    let mut tag = 100u64;
    let mut sig = String::from("ps ");
    for step in 0..rng.range(10, 30) {
        let p = rng.pick(&universe).clone();
        match rng.below(10) {
            0..=3 => {
                tag += 1;
                let b = rng.below(1000) as u64;
                sim.insert(pid_of(&p), tag, b);
                map.insert(p.clone(), (tag, b));
                out.line(format!("ps insert {} {tag} {b}", pid_str(&p)), "ok".into());
                sig += "i";
            }
            4..=6 => {
                let got = sim.get(&pid_of(&p)).map(|(t, b)| (t, b.unwrap_or(u64::MAX)));
                let want = map.get(&p).copied().or_else(|| warm.as_ref().and_then(|w| w.get(&p).copied()));
                if got != want {
                    out.fail(format!("C13 page set: get {} gives {got:?}, expected {want:?} (case {case} step {step})", pid_str(&p)));
                }
                out.line(format!("ps get {}", pid_str(&p)), ent(&got));
                sig += if got.is_some() { "g" } else { "n" };
            }
            7 => {
                let got = sim.contains(&pid_of(&p));
                if got != map.contains_key(&p) {
                    out.fail(format!("C13 page set: contains {} = {got} (case {case} step {step})", pid_str(&p)));
                }
                if !got && warm.as_ref().map_or(false, |w| w.contains_key(&p)) {
                    out.count("ps_contains_false_but_warmed_up");
                }
                out.line(format!("ps contains {}", pid_str(&p)), (got as u8).to_string());
            }
            8 => {
                let (label, elided) = sim.fresh_label(&pid_of(&p));
                if label != pid_of(&p).encode() || elided != 0 {
                    out.fail(format!("C16 page set: fresh page of {} labelled {} elided {elided:x}", pid_str(&p), hex(&label)));
                }
                out.count("ps_fresh");
            }
            _ => {
                let w = rng.chance(2, 3);
                sim.restart(w);
                warm = if w { Some(std::mem::take(&mut map)) } else { map.clear(); None };
                out.line(format!("ps restart {}", w as u8), "ok".into());
                out.count(if w { "ps_restart_warm" } else { "ps_restart_cold" });
                sig += "r";
            }
        }
    }
    out.nontrivial(&sig);
}

// ---------------------------------------------------------------- the real store: do the callers keep the protocol?

fn fnv64(bytes: &[u8]) -> u64 {
    let mut h = 0xcbf29ce484222325u64;
    for b in bytes {
        h = (h ^ *b as u64).wrapping_mul(0x100000001b3);
    }
    h
}

struct Observed {
    ln: Option<std::fs::File>,
    ops: Vec<String>,
    imp: Vec<String>,
    fails: Vec<String>,
    hits: u64,
    misses: u64,
    inserts: u64,
    reinserts_of_cached_pn: u64,
    evicted_shards: u64,
    cached: BTreeSet<u32>,
}

/// `caches-db`: real stores with tiny leaf caches (0 / 1 MiB = 0 / 8 leaves per shard), fat values (3 per leaf,
/// hundreds of leaves, page numbers recycled from the second commit on), 1…4 commit workers.  Every `LeafCache::get`
/// (observed under the shard lock), `insert` (observed at its two call sites) and per-shard `evict` of the REAL code
/// is (a) checked against the `ln` FILE: a hit must return, an insertion must pass, byte for byte the page stored at
/// that page number at that moment — the callers' protocol `LProto` of the transparency theorem — and (b) replayed by
/// the Lean mirror (`lcq` lines: the mirror must predict every hit and miss of the real run).  Values read through
/// `Nomt::read` and sessions are compared with a `BTreeMap`.
pub fn run_db(seed: u64, cases: usize, out: &mut Sink) {
    use nomt::hasher::Blake3Hasher;
    use nomt::verif_api::caches::{set_leaf_cache_observer, LeafCacheCall};
    use nomt::{KeyReadWrite, Nomt, Options, SessionParams, WitnessMode};
    use std::os::unix::fs::FileExt;
    use std::sync::{Arc, Mutex};
    let mut rng = Rng::new(seed ^ 0xdb_cac4e5);
    let pid = std::process::id();
    for case in 0..cases {
        let mut r = rng.fork();
        out.mark_case(format!("caches-db case {case}"));
        let dir = format!("/dev/shm/nomt-verif-caches-{pid}-{seed}-{case}");
        let _ = std::fs::remove_dir_all(&dir);
        let leaf_mib = *r.pick(&[0usize, 1, 1]);
        let workers = *r.pick(&[1usize, 1, 2, 4]);
        let dbg = cfg!(debug_assertions) as u8;
        let obs = Arc::new(Mutex::new(Observed {
            ln: None, ops: vec![format!("lc new {dbg} 32 {leaf_mib}")], imp: vec![format!("ok max={}*32", leaf_mib * 256 / 32)],
            fails: vec![], hits: 0, misses: 0, inserts: 0, reinserts_of_cached_pn: 0, evicted_shards: 0, cached: BTreeSet::new(),
        }));
        let o2 = obs.clone();
        set_leaf_cache_observer(Some(Box::new(move |kind, shard, pn, bytes| {
            let mut o = o2.lock().unwrap();
            let stored = |o: &Observed| -> Option<Vec<u8>> {
                let mut buf = vec![0u8; 4096];
                o.ln.as_ref().and_then(|f| f.read_exact_at(&mut buf, pn as u64 * 4096).ok()).map(|_| buf)
            };
            match kind {
                LeafCacheCall::Get => {
                    o.ops.push(format!("lcq get {shard} {pn}"));
                    match bytes {
                        Some(b) => {
                            o.hits += 1;
                            if stored(&o).as_deref() != Some(b) {
                                o.fails.push(format!("C13 leaf cache protocol: get({pn}) HIT returns a leaf that is not page {pn} of the ln file"));
                            }
                            o.imp.push(fnv64(b).to_string());
                        }
                        None => { o.misses += 1; o.imp.push("-".into()); }
                    }
                }
                LeafCacheCall::Insert => {
                    let b = bytes.unwrap();
                    o.inserts += 1;
                    if !o.cached.insert(pn) { o.reinserts_of_cached_pn += 1; }
                    if stored(&o).as_deref() != Some(b) {
                        o.fails.push(format!("C13 leaf cache protocol: insert({pn}, leaf) passes a leaf that is not page {pn} of the ln file"));
                    }
                    o.ops.push(format!("lcq insert {shard} {pn} {}", fnv64(b)));
                    o.imp.push("ok".into());
                }
                LeafCacheCall::Evict => {
                    o.evicted_shards += 1;
                    o.ops.push(format!("lcq evict1 {shard} {pn}"));
                    o.imp.push("ok".into());
                }
            }
        })));
        let mut o = Options::new();
        o.path(&dir);
        o.commit_concurrency(workers);
        o.hashtable_buckets(8192);
        o.rollback(false);
        o.warm_up(r.chance(1, 3));
        let page_mib = *r.pick(&[0usize, 0, 1, 4]);
        o.page_cache_size(page_mib);
        o.page_cache_upper_levels(r.below(4));
        o.prepopulate_page_cache(r.chance(1, 2));
        o.leaf_cache_size(leaf_mib);
        o.io_workers(r.range(1, 2));
        o.preallocate_ht(false);
        let db = match catch_unwind(AssertUnwindSafe(|| Nomt::<Blake3Hasher>::open(o))) {
            Ok(Ok(db)) => db,
            _ => { out.fail(format!("C13 caches-db: Nomt::open fails or panics with page_cache_size({page_mib}) leaf_cache_size({leaf_mib}) (case {case})")); set_leaf_cache_observer(None); let _ = std::fs::remove_dir_all(&dir); continue; }
        };
        obs.lock().unwrap().ln = std::fs::File::open(format!("{dir}/ln")).ok();
        let mut view: BTreeMap<Key, Vec<u8>> = BTreeMap::new();
        let mut keys: Vec<Key> = Vec::new();
        let ncommits = r.range(3, 6);
        for commit in 0..ncommits {
            let mut actuals: BTreeMap<Key, KeyReadWrite> = BTreeMap::new();
            let nw = if commit == 0 { r.range(150, 1000) } else { r.range(20, 150) };
            for _ in 0..nw {
                let k = if !keys.is_empty() && r.chance(1, 2) { *r.pick(&keys) } else { let k = r.bytes32(); keys.push(k); k };
                if r.chance(1, 6) {
                    actuals.insert(k, KeyReadWrite::Write(None));
                } else {
                    let len = r.range(900, 1300);
                    let mut v = vec![(commit as u8) ^ k[0]; len];
                    v[0] = r.below(256) as u8;
                    actuals.insert(k, KeyReadWrite::Write(Some(v)));
                }
            }
            let s = db.begin_session(SessionParams::default().witness_mode(WitnessMode::disabled()));
            // reads through the session before finishing it
            for _ in 0..r.range(0, 20) {
                if keys.is_empty() { break; }
                let k = *r.pick(&keys);
                match s.read(k) {
                    Ok(v) => if v.as_deref() != view.get(&k).map(|x| &x[..]) {
                        out.fail(format!("C01 caches-db: session read of {} differs from the committed value (case {case} commit {commit})", hex(&k)));
                    },
                    Err(e) => out.fail(format!("C01 caches-db: session read failed: {e:#}")),
                }
                out.count("db_session_read");
            }
            let list: Vec<(Key, KeyReadWrite)> = actuals.iter().map(|(k, v)| (*k, v.clone())).collect();
            match catch_unwind(AssertUnwindSafe(|| s.finish(list).and_then(|f| f.commit(&db)))) {
                Ok(Ok(_)) => {
                    for (k, v) in actuals {
                        match v { KeyReadWrite::Write(Some(v)) => { view.insert(k, v); } _ => { view.remove(&k); } }
                    }
                }
                _ => { out.fail(format!("C01 caches-db: commit failed (case {case} commit {commit})")); break; }
            }
            out.count("db_commit");
            // direct reads: hits, misses with insertion, recycled page numbers
            for _ in 0..r.range(20, 120) {
                let k = if r.chance(1, 10) { r.bytes32() } else { *r.pick(&keys) };
                match db.read(k) {
                    Ok(v) => if v.as_deref() != view.get(&k).map(|x| &x[..]) {
                        out.fail(format!("C01 caches-db: read of {} differs from the committed value (case {case} commit {commit}, leaf cache {leaf_mib} MiB)", hex(&k)));
                    },
                    Err(e) => out.fail(format!("C01 caches-db: read failed: {e:#}")),
                }
                out.count("db_read");
            }
        }
        drop(db);
        set_leaf_cache_observer(None);
        let _ = std::fs::remove_dir_all(&dir);
        let mut o = obs.lock().unwrap();
        for (a, b) in std::mem::take(&mut o.ops).into_iter().zip(std::mem::take(&mut o.imp)) {
            out.line(a, b);
        }
        for f in std::mem::take(&mut o.fails) {
            out.fail(format!("{f} (case {case}, leaf cache {leaf_mib} MiB, {workers} workers)"));
        }
        out.add("db_leaf_get_hit", o.hits);
        out.add("db_leaf_get_miss", o.misses);
        out.add("db_leaf_insert", o.inserts);
        out.add("db_leaf_insert_of_page_number_inserted_before", o.reinserts_of_cached_pn);
        out.add("db_leaf_evict_shard", o.evicted_shards);
        out.count(&format!("db_leaf_cache_{leaf_mib}MiB"));
        out.count(&format!("db_page_cache_{page_mib}MiB"));
        out.nontrivial(&format!("db {case} {} {} {}", o.hits, o.misses, o.inserts));
    }
}

/// `caches-open0` (directed corpus run, the replay of finding F25): `Nomt::open` with `page_cache_size(0)` and with
/// `leaf_cache_size(0)`, then one commit and reads on each store — must succeed (`T13_cache_new_total`,
/// `T13_page_cache_size0_opens`); panicked in `make_shards` before repair 6886fe6.
pub fn run_open0(_seed: u64, _cases: usize, out: &mut Sink) {
    use nomt::hasher::Blake3Hasher;
    use nomt::{KeyReadWrite, Nomt, Options, SessionParams, WitnessMode};
    let pid = std::process::id();
    // the cache alone, every shard count, against the mirror
    let dbg = cfg!(debug_assertions) as u8;
    for n in 1..=64usize {
        out.mark_case(format!("caches-open0 PageCache::new shards={n} size=0"));
        let op = format!("pc new {dbg} {n} 0 2 -");
        match quiet(|| PageCacheSim::new(None, n, 0, 2)) {
            Ok(sim) => {
                let d = pc_dump(&sim);
                if d.shards.len() != n || d.shards.iter().any(|s| s.0 != 1) {
                    out.fail(format!("C13 page cache: page_cache_size(0) with {n} shards must give {n} shards of one page each"));
                }
                out.line(op, format!("ok {}", pc_dump_str(&d, true)));
                out.count("open0_page_cache_new_ok");
            }
            Err(()) => {
                out.line(op, "panic".into());
                out.fail(format!("C13 page cache: PageCache::new panics with page_cache_size(0), {n} shards (finding F25)"));
            }
        }
        out.nontrivial(&format!("open0 {n}"));
    }
    // the store
    for (what, page, leaf) in [("leaf_cache_size(0)", 1usize, 0usize), ("page_cache_size(0)", 0, 1), ("page_cache_size(0) and leaf_cache_size(0)", 0, 0)] {
        out.mark_case(format!("caches-open0 Nomt::open with {what}"));
        let dir = format!("/dev/shm/nomt-verif-caches-open0-{pid}");
        let _ = std::fs::remove_dir_all(&dir);
        let mut o = Options::new();
        o.path(&dir);
        o.hashtable_buckets(4096);
        o.preallocate_ht(false);
        o.page_cache_size(page);
        o.leaf_cache_size(leaf);
        let r = catch_unwind(AssertUnwindSafe(|| -> anyhow::Result<()> {
            let db = Nomt::<Blake3Hasher>::open(o)?;
            let mut view: BTreeMap<Key, Vec<u8>> = BTreeMap::new();
            for round in 0..3u8 {
                let s = db.begin_session(SessionParams::default().witness_mode(WitnessMode::disabled()));
                let mut list: Vec<(Key, KeyReadWrite)> = Vec::new();
                for i in 0..200u32 {
                    let mut k = [0u8; 32];
                    k[..4].copy_from_slice(&(i.wrapping_mul(2654435761)).to_be_bytes());
                    if (i + round as u32) % 3 == 0 { continue; }
                    let v = vec![round ^ i as u8; 40 + (i as usize % 7) * 200];
                    view.insert(k, v.clone());
                    list.push((k, KeyReadWrite::Write(Some(v))));
                }
                list.sort_by(|a, b| a.0.cmp(&b.0));
                s.finish(list)?.commit(&db)?;
                for (k, v) in view.iter() {
                    if db.read(*k)?.as_deref() != Some(&v[..]) {
                        anyhow::bail!("read of {} differs from the committed value", hex(k));
                    }
                }
            }
            Ok(())
        }));
        let imp = match r {
            Ok(Ok(())) => "ok".to_string(),
            Ok(Err(e)) => format!("err {e:#}"),
            Err(p) => format!("PANIC {}", p.downcast_ref::<String>().cloned().or(p.downcast_ref::<&str>().map(|s| s.to_string())).unwrap_or_default()),
        };
        println!("Nomt::open + 3 commits + reads with {what}: {imp}");
        if imp != "ok" {
            out.fail(format!("C13 Nomt::open / commit / read with {what}: {imp}; every other cache size opens the store and gives the same results (finding F25)"));
        }
        out.count(&format!("open0_store_{}", if imp == "ok" { "ok" } else { "not_ok" }));
        let _ = std::fs::remove_dir_all(&dir);
    }
}

pub fn run(seed: u64, cases: usize, out: &mut Sink) {
    let mut rng = Rng::new(seed ^ 0x51_cac4e5);
    let only: Option<usize> = std::env::var("VH_CACHES_ONLY").ok().and_then(|s| s.parse().ok());
    // silence the panic messages of the predicted panics
    let hook = std::panic::take_hook();
    std::panic::set_hook(Box::new(|_| {}));
    for case in 0..cases {
        let mut r = rng.fork();
        if only.map_or(false, |o| o != case) {
            continue;
        }
        out.mark_case(format!("caches case {case}"));
        match r.below(20) {
            0..=9 => pc_case(&mut r, out, case),
            10..=16 => lc_case(&mut r, out, case),
            _ => ps_case(&mut r, out, case),
        }
    }
    std::panic::set_hook(hook);
}
