//! Shared utilities: deterministic PRNG, hex, key generators, reference trie (harness-side oracle).
use std::fmt::Write as _;

pub type Key = [u8; 32];

/// splitmix64 — every random choice of a run derives from one of these, seeded by VERIF_SEED.
#[derive(Clone)]
pub struct Rng(pub u64);
impl Rng {
    pub fn new(seed: u64) -> Self {
        Rng(seed.wrapping_mul(0x9E3779B97F4A7C15) ^ 0xD1B54A32D192ED03)
    }
    pub fn next(&mut self) -> u64 {
        self.0 = self.0.wrapping_add(0x9E3779B97F4A7C15);
        let mut z = self.0;
        z = (z ^ (z >> 30)).wrapping_mul(0xBF58476D1CE4E5B9);
        z = (z ^ (z >> 27)).wrapping_mul(0x94D049BB133111EB);
        z ^ (z >> 31)
    }
    pub fn below(&mut self, n: usize) -> usize {
        if n == 0 {
            0
        } else {
            (self.next() % n as u64) as usize
        }
    }
    pub fn range(&mut self, lo: usize, hi_incl: usize) -> usize {
        lo + self.below(hi_incl - lo + 1)
    }
    pub fn chance(&mut self, num: usize, den: usize) -> bool {
        self.below(den) < num
    }
    pub fn bytes32(&mut self) -> [u8; 32] {
        let mut k = [0u8; 32];
        for c in k.chunks_mut(8) {
            c.copy_from_slice(&self.next().to_le_bytes());
        }
        k
    }
    pub fn pick<'a, T>(&mut self, v: &'a [T]) -> &'a T {
        &v[self.below(v.len())]
    }
    pub fn fork(&mut self) -> Rng {
        Rng::new(self.next())
    }
}

pub fn hex(b: &[u8]) -> String {
    let mut s = String::with_capacity(b.len() * 2);
    for x in b {
        write!(s, "{:02x}", x).unwrap();
    }
    s
}
pub fn unhex(s: &str) -> Vec<u8> {
    (0..s.len() / 2)
        .map(|i| u8::from_str_radix(&s[2 * i..2 * i + 2], 16).unwrap())
        .collect()
}
pub fn unhex32(s: &str) -> [u8; 32] {
    let v = unhex(s);
    let mut k = [0u8; 32];
    k.copy_from_slice(&v);
    k
}

pub fn bit(k: &Key, i: usize) -> bool {
    (k[i / 8] >> (7 - i % 8)) & 1 == 1
}
pub fn set_bit(k: &mut Key, i: usize, b: bool) {
    if b {
        k[i / 8] |= 1 << (7 - i % 8);
    } else {
        k[i / 8] &= !(1 << (7 - i % 8));
    }
}
pub fn flip_bit(k: &Key, i: usize) -> Key {
    let mut k2 = *k;
    set_bit(&mut k2, i, !bit(k, i));
    k2
}
pub fn bits_str(k: &Key, n: usize) -> String {
    if n == 0 {
        return "-".into();
    }
    (0..n).map(|i| if bit(k, i) { '1' } else { '0' }).collect()
}
pub fn shared_bits(a: &Key, b: &Key) -> usize {
    for i in 0..256 {
        if bit(a, i) != bit(b, i) {
            return i;
        }
    }
    256
}

/// `first d bits of base` ++ `!base[d]` ++ random tail: a key diverging from `base` exactly at bit d.
pub fn diverge_at(rng: &mut Rng, base: &Key, d: usize) -> Key {
    let mut k = rng.bytes32();
    for i in 0..d {
        set_bit(&mut k, i, bit(base, i));
    }
    set_bit(&mut k, d, !bit(base, d));
    k
}
/// random key sharing the first `d` bits with `base`
pub fn with_prefix(rng: &mut Rng, base: &Key, d: usize) -> Key {
    let mut k = rng.bytes32();
    for i in 0..d.min(256) {
        set_bit(&mut k, i, bit(base, i));
    }
    k
}

/// Interesting prefix lengths: page boundaries 6k-1,6k,6k+1, byte boundaries, and the deep end.
pub fn interesting_depth(rng: &mut Rng) -> usize {
    match rng.below(6) {
        0 => rng.below(256),
        1 => {
            let k = rng.range(1, 42);
            (6 * k + rng.below(3)).saturating_sub(1).min(255)
        }
        2 => rng.range(246, 255),
        3 => rng.below(16),
        4 => (8 * rng.range(1, 31) + rng.below(3)).saturating_sub(1).min(255),
        _ => rng.below(64),
    }
}

/// A structured key set: uniform keys plus clusters under common prefixes of interesting lengths.
pub fn gen_keyset(rng: &mut Rng, max: usize) -> Vec<Key> {
    let n = rng.below(max + 1);
    let mut keys: Vec<Key> = Vec::new();
    while keys.len() < n {
        match rng.below(5) {
            0 => keys.push(rng.bytes32()),
            1 if !keys.is_empty() => {
                let base = *rng.pick(&keys);
                let d = interesting_depth(rng);
                keys.push(diverge_at(rng, &base, d));
            }
            2 => {
                // cluster
                let base = rng.bytes32();
                let d = interesting_depth(rng);
                let m = rng.range(1, 6);
                for _ in 0..m {
                    keys.push(with_prefix(rng, &base, d));
                }
            }
            3 => {
                // nested deep forks: keys leaving one base key at depths that lie in different 64-bit
                // words (terminal paths of very different lengths that agree on whole words), plus the
                // exact boundary keys P·1·00…0 / P·0·11…1 of a prefix P
                let base = rng.bytes32();
                keys.push(base);
                let mut d = rng.range(1, 40);
                for _ in 0..rng.range(2, 4) {
                    if d > 254 {
                        break;
                    }
                    keys.push(diverge_at(rng, &base, d));
                    d += rng.range(40, 90);
                }
                let pd = interesting_depth(rng).min(250);
                let mut lo = base;
                let mut hi = base;
                set_bit(&mut lo, pd, false);
                set_bit(&mut hi, pd, true);
                for i in pd + 1..256 {
                    set_bit(&mut lo, i, true);
                    set_bit(&mut hi, i, false);
                }
                if rng.chance(1, 2) {
                    keys.push(lo);
                    keys.push(hi);
                }
            }
            _ => {
                // all-zero / all-one flavoured keys
                let mut k = if rng.chance(1, 2) { [0u8; 32] } else { [0xffu8; 32] };
                let d = rng.below(256);
                set_bit(&mut k, d, rng.chance(1, 2));
                keys.push(k);
            }
        }
    }
    keys.sort();
    keys.dedup();
    keys
}

// ---------------------------------------------------------------------------------------------
// Reference trie (harness oracle): straight from docs/nomt_specification.md, recursive, with the
// production Blake3 hasher for node preimages.  Cross-checked against the Lean `nodeAt` on every run.

use nomt_core::hasher::{Blake3Hasher, NodeHasher};
use nomt_core::trie::{InternalData, LeafData, Node, TERMINATOR};

pub fn ref_node(kvs: &[(Key, [u8; 32])], d: usize) -> Node {
    match kvs.len() {
        0 => TERMINATOR,
        1 => Blake3Hasher::hash_leaf(&LeafData { key_path: kvs[0].0, value_hash: kvs[0].1 }),
        _ => {
            let mid = kvs.partition_point(|(k, _)| !bit(k, d));
            let l = ref_node(&kvs[..mid], d + 1);
            let r = ref_node(&kvs[mid..], d + 1);
            Blake3Hasher::hash_internal(&InternalData { left: l, right: r })
        }
    }
}
pub fn ref_root(kvs: &[(Key, [u8; 32])]) -> Node {
    ref_node(kvs, 0)
}

#[derive(Clone, Debug, PartialEq, Eq)]
pub enum RefTerminal {
    Leaf(Key, [u8; 32]),
    Terminator(usize),
}
/// reference path proof: terminal and siblings top-down (= ascending depth)
pub fn ref_prove(kvs: &[(Key, [u8; 32])], key: &Key) -> (RefTerminal, Vec<Node>) {
    let mut sibs = Vec::new();
    let mut cur = kvs;
    let mut d = 0;
    loop {
        match cur.len() {
            0 => return (RefTerminal::Terminator(d), sibs),
            1 => return (RefTerminal::Leaf(cur[0].0, cur[0].1), sibs),
            _ => {
                let mid = cur.partition_point(|(k, _)| !bit(k, d));
                let (l, r) = cur.split_at(mid);
                if bit(key, d) {
                    sibs.push(ref_node(l, d + 1));
                    cur = r;
                } else {
                    sibs.push(ref_node(r, d + 1));
                    cur = l;
                }
                d += 1;
            }
        }
    }
}

pub fn kv_line(kvs: &[(Key, [u8; 32])]) -> String {
    if kvs.is_empty() {
        return "-".into();
    }
    kvs.iter().map(|(k, v)| format!("{}:{}", hex(k), hex(v))).collect::<Vec<_>>().join(",")
}
pub fn ops_line(ops: &[(Key, Option<[u8; 32]>)]) -> String {
    if ops.is_empty() {
        return "-".into();
    }
    ops.iter()
        .map(|(k, v)| match v {
            Some(v) => format!("{}:{}", hex(k), hex(v)),
            None => format!("{}:-", hex(k)),
        })
        .collect::<Vec<_>>()
        .join(",")
}
pub fn nodes_line(ns: &[Node]) -> String {
    if ns.is_empty() {
        return "-".into();
    }
    ns.iter().map(|n| hex(n)).collect::<Vec<_>>().join(",")
}

/// Output sink of one harness run: protocol lines for the model, the implementation's answers, and
/// failures of the implementation against the harness-side oracle (reported separately).
pub struct Sink {
    pub ops: Vec<String>,
    pub imp: Vec<String>,
    pub oracle_failures: Vec<String>,
    pub stats: std::collections::BTreeMap<String, u64>,
    pub samples: Vec<String>,
    pub case_marks: Vec<(usize, String)>,
    pub distinct: std::collections::HashSet<u64>,
}
impl Sink {
    pub fn new() -> Self {
        Sink {
            ops: vec![],
            imp: vec![],
            oracle_failures: vec![],
            stats: Default::default(),
            samples: vec![],
            case_marks: vec![],
            distinct: Default::default(),
        }
    }
    pub fn line(&mut self, op: String, imp: String) {
        self.ops.push(op);
        self.imp.push(imp);
    }
    pub fn count(&mut self, k: &str) {
        *self.stats.entry(k.to_string()).or_insert(0) += 1;
    }
    pub fn add(&mut self, k: &str, n: u64) {
        *self.stats.entry(k.to_string()).or_insert(0) += n;
    }
    pub fn fail(&mut self, msg: String) {
        self.oracle_failures.push(msg);
    }
    pub fn mark_case(&mut self, desc: String) {
        self.case_marks.push((self.ops.len(), desc));
    }
    pub fn nontrivial(&mut self, sig: &str) {
        use std::hash::{Hash, Hasher};
        let mut h = std::collections::hash_map::DefaultHasher::new();
        sig.hash(&mut h);
        self.distinct.insert(h.finish());
    }
    pub fn write(&self, dir: &str) -> std::io::Result<()> {
        std::fs::create_dir_all(dir)?;
        std::fs::write(format!("{dir}/ops.txt"), self.ops.join("\n") + "\n")?;
        std::fs::write(format!("{dir}/impl.txt"), self.imp.join("\n") + "\n")?;
        std::fs::write(format!("{dir}/oracle_failures.txt"), self.oracle_failures.join("\n"))?;
        let mut marks = String::new();
        for (i, d) in &self.case_marks {
            marks.push_str(&format!("{i}\t{d}\n"));
        }
        std::fs::write(format!("{dir}/cases.txt"), marks)?;
        let mut st = String::from("{");
        let mut first = true;
        for (k, v) in &self.stats {
            if !first {
                st.push(',');
            }
            first = false;
            st.push_str(&format!("\"{k}\":{v}"));
        }
        if !first {
            st.push(',');
        }
        st.push_str(&format!("\"distinct_nontrivial\":{}", self.distinct.len()));
        st.push('}');
        std::fs::write(format!("{dir}/stats.json"), st)?;
        std::fs::write(format!("{dir}/samples.txt"), self.samples.join("\n"))?;
        Ok(())
    }
}
