//! C04 / C03 / C17 / C19: the content side of the crash argument for the merkle page table — the REAL
//! `bitbox::DB::prepare_sync` (bucket allocation, meta-map updates, the WAL blob, the hash-table pages handed to
//! `write_ht`), driven through hook `nomt::verif_api::bitbox_sync::PrepareSim` (cfg nomt_verif) on caller-built table
//! states and changesets, against the Lean mirror (driver mode `prepsync`, `Store/PrepareSyncModel.lean`) line by line,
//! plus oracles that do not depend on the model:
//!   (i)   redo = write-out (C04 / C03): the REAL `recover` (`DB::open`) on (old table file + the WAL blob) leaves a file
//!         byte-identical to the old table with the returned `ht` pages applied, whenever every diff names every slot in
//!         which the page differs from its bucket's old content; in general it equals the write-out on every meta byte,
//!         on the label / elided-children field and on every named slot, and keeps the OLD byte elsewhere;
//!   (i')  C04: with any random subset of the returned pages already written (a crash in the middle of `write_ht`), the REAL
//!         `recover` gives the completed write-out;
//!   (ii)  C17: only buckets of changed pages and meta pages of changed buckets are in the `ht` list; the buckets written
//!         hold no other stored page; redo touches nothing else either;
//!   (iii) C19: `occupied_buckets` = `full_count()` = number of stored pages of a BTreeMap oracle;
//!   (iv)  C05: every stored page is found by the real probe sequence + label check in exactly its bucket, cleared and
//!         absent pages are not found;
//!   (v)   the blob read back by the real `WalBlobReader` holds exactly one entry per page, with the bucket the page got.
use crate::util::*;
use nomt::verif_api::bitbox_sync::{PrepareSim, SimBucket, SimDirty};
use nomt::verif_api::{allocate_bucket, hash_raw_page_id, open_and_recover, wal_read, PlainWalEntry};
use nomt_core::page_id::{ChildPageIndex, PageId, ROOT_PAGE_ID};
use std::collections::{BTreeMap, BTreeSet, HashMap};
use std::io::{Seek, SeekFrom, Write};
use std::panic::{catch_unwind, AssertUnwindSafe};

const PAGE: usize = 4096;
const CLEAR: u64 = 1 << 63;

fn fnv(b: &[u8]) -> u64 {
    let mut h: u64 = 0xcbf29ce484222325;
    for x in b {
        h = (h ^ *x as u64).wrapping_mul(0x100000001b3);
    }
    h
}

// ------------------------------------------------------------------------------------------------ table state

#[derive(Clone)]
struct Tbl {
    n: usize,
    seed: [u8; 16],
    /// the whole `bitvec` (whole pages)
    meta: Vec<u8>,
    /// bucket -> page; an absent bucket holds zeros
    pages: HashMap<usize, Vec<u8>>,
    /// oracle: encoded page id -> (page id, bucket)
    stored: BTreeMap<[u8; 32], (PageId, usize)>,
}

impl Tbl {
    fn new(n: usize, seed: [u8; 16]) -> Tbl {
        Tbl { n, seed, meta: vec![0u8; mp(n) * PAGE], pages: HashMap::new(), stored: BTreeMap::new() }
    }
    fn page(&self, b: usize) -> Vec<u8> {
        self.pages.get(&b).cloned().unwrap_or_else(|| vec![0u8; PAGE])
    }
    fn full_count(&self) -> usize {
        self.meta.iter().filter(|&&x| x & 0x80 != 0).count()
    }
    /// the `ht` file image
    fn image(&self) -> Vec<u8> {
        let m = mp(self.n);
        let mut v = vec![0u8; (m + self.n) * PAGE];
        v[..m * PAGE].copy_from_slice(&self.meta);
        for (b, p) in &self.pages {
            if *b < self.n {
                v[(m + b) * PAGE..(m + b + 1) * PAGE].copy_from_slice(p);
            }
        }
        v
    }
}

fn mp(n: usize) -> usize {
    (n + 4095) / 4096
}

fn gen_page_id(r: &mut Rng) -> PageId {
    let mut p = ROOT_PAGE_ID;
    let depth = match r.below(8) {
        0 => 0,
        1 => 42,
        2 => r.range(30, 42),
        _ => r.range(1, 9),
    };
    for _ in 0..depth {
        p = p.child_page_id(ChildPageIndex::new(r.below(64) as u8).unwrap()).unwrap();
    }
    p
}

fn fresh_page_id(r: &mut Rng, t: &Tbl, also: &BTreeSet<[u8; 32]>) -> PageId {
    loop {
        let p = gen_page_id(r);
        if !t.stored.contains_key(&p.encode()) && !also.contains(&p.encode()) {
            return p;
        }
    }
}

fn gen_node(r: &mut Rng) -> [u8; 32] {
    let mut n = r.bytes32();
    if r.chance(1, 8) {
        n = [0u8; 32];
    }
    n
}

/// slot sets aimed at the extremes and at the word boundary of the diff
fn gen_slots(r: &mut Rng) -> (Vec<usize>, &'static str) {
    match r.below(12) {
        0 => (vec![], "0"),
        1 | 2 => (vec![*r.pick(&[0usize, 1, 62, 63, 64, 65, 124, 125])], "1"),
        3 | 4 => ((0..126).collect(), "126"),
        5 => (vec![63, 64], "63+64"),
        6 => ((0..64).collect(), "word0"),
        7 => ((64..126).collect(), "word1"),
        _ => {
            let k = r.range(2, 9);
            let mut s: BTreeSet<usize> = BTreeSet::new();
            for _ in 0..k {
                s.insert(r.below(126));
            }
            (s.into_iter().collect(), "few")
        }
    }
}

fn words_of(slots: &[usize]) -> [u64; 2] {
    let mut w = [0u64; 2];
    for &s in slots {
        w[s / 64] |= 1 << (s % 64);
    }
    w
}

fn named(diff: &[u64; 2], slot: usize) -> bool {
    slot < 128 && diff[slot / 64] >> (slot % 64) & 1 == 1
}

fn set_label(p: &mut [u8], pid: &PageId) {
    p[PAGE - 32..].copy_from_slice(&pid.encode());
}

// ------------------------------------------------------------------------------------------------ protocol text

fn rle(b: &[u8]) -> String {
    if b.is_empty() {
        return "-".into();
    }
    let mut out: Vec<String> = Vec::new();
    let mut i = 0;
    while i < b.len() {
        let mut j = i;
        while j < b.len() && b[j] == b[i] {
            j += 1;
        }
        if j - i == 1 {
            out.push(format!("{:02x}", b[i]));
        } else {
            out.push(format!("{:02x}*{}", b[i], j - i));
        }
        i = j;
    }
    out.join(".")
}

fn sparse_page(p: &[u8]) -> String {
    let mut best: Option<(u8, Vec<usize>)> = None;
    for fill in [0u8, p[0], p[4031]] {
        let listed: Vec<usize> = (0..126).filter(|&i| p[i * 32..i * 32 + 32].iter().any(|&x| x != fill)).collect();
        if best.as_ref().map_or(true, |(_, l)| listed.len() < l.len()) {
            best = Some((fill, listed));
        }
    }
    let (fill, listed) = best.unwrap();
    let slots = if listed.is_empty() {
        "-".to_string()
    } else {
        listed.iter().map(|&i| format!("{i}={}", hex(&p[i * 32..i * 32 + 32]))).collect::<Vec<_>>().join("+")
    };
    format!("{:02x}/{}/{}", fill, slots, hex(&p[4032..]))
}

fn bk_str(b: &SimBucket) -> String {
    match b {
        SimBucket::Known(b) => format!("K{b}"),
        SimBucket::FreshWithNoDependents => "F".into(),
        SimBucket::DependentUnset => "U".into(),
        SimBucket::DependentSet(b) => format!("S{b}"),
    }
}

// ------------------------------------------------------------------------------------------------ changes

#[derive(Clone)]
struct Ch {
    pid: PageId,
    page: Vec<u8>,
    diff: [u64; 2],
    bk: SimBucket,
    /// content of a fresh page: built from the stale content of the bucket it will get (`Some(changed slots, elided)`)
    cover_plan: Option<(Vec<(usize, [u8; 32])>, u64)>,
}

impl Ch {
    fn cleared(&self) -> bool {
        self.diff[1] & CLEAR == CLEAR
    }
    fn show(&self) -> String {
        format!("{},{},{},{},{}", bk_str(&self.bk), hex(&self.pid.encode()), self.diff[0], self.diff[1], sparse_page(&self.page))
    }
    fn dirty(&self) -> SimDirty {
        SimDirty { page_id: self.pid.clone(), page: self.page.clone(), diff: self.diff, bucket: self.bk }
    }
}

struct Plan {
    changes: Vec<Ch>,
    /// the caller contract of `prepare_sync` holds (bucket infos truthful, each page id once, labelled pages, no reserved bit)
    contract: bool,
    /// every diff names every slot in which the page differs from its bucket's old content
    covering: bool,
    kinds: Vec<&'static str>,
}

fn known_or_dep(r: &mut Rng, b: usize) -> SimBucket {
    if r.chance(3, 4) {
        SimBucket::Known(b as u64)
    } else {
        SimBucket::DependentSet(b as u64)
    }
}

fn fresh_bk(r: &mut Rng) -> SimBucket {
    if r.chance(1, 2) {
        SimBucket::FreshWithNoDependents
    } else {
        SimBucket::DependentUnset
    }
}

fn ch_update(r: &mut Rng, t: &Tbl, pid: &PageId, b: usize, out: &mut Sink, omit: bool) -> Ch {
    let base = t.page(b);
    let (mut slots, cls) = gen_slots(r);
    out.count(&format!("diff_slots_{cls}"));
    let mut page = base.clone();
    for &s in &slots {
        // a named slot may keep its content
        if r.chance(5, 6) {
            page[s * 32..s * 32 + 32].copy_from_slice(&gen_node(r));
        }
    }
    if omit {
        // a slot that changes (here: is zeroed or rewritten) but is not named by the diff: finding F20 / the seeded change
        // `C03-wal-diff-drops-reconstruction`
        let s = (0..126).find(|s| !slots.contains(s)).unwrap_or(0);
        slots.retain(|x| *x != s);
        let old: [u8; 32] = page[s * 32..s * 32 + 32].try_into().unwrap();
        let new = if old == [0u8; 32] { [0x5au8; 32] } else { [0u8; 32] };
        page[s * 32..s * 32 + 32].copy_from_slice(&new);
    }
    if r.chance(1, 3) {
        page[PAGE - 40..PAGE - 32].copy_from_slice(&r.next().to_le_bytes());
    }
    set_label(&mut page, pid);
    Ch { pid: pid.clone(), page, diff: words_of(&slots), bk: known_or_dep(r, b), cover_plan: None }
}

fn ch_clear(r: &mut Rng, pid: &PageId, b: usize) -> Ch {
    let mut page = vec![0u8; PAGE];
    set_label(&mut page, pid);
    let mut diff = [0u64, CLEAR];
    if r.chance(1, 4) {
        // `set_cleared` after `set_changed` keeps the slot bits
        diff[0] = r.next();
    }
    Ch { pid: pid.clone(), page, diff, bk: known_or_dep(r, b), cover_plan: None }
}

fn ch_fresh(r: &mut Rng, pid: &PageId, out: &mut Sink, garbage: bool) -> Ch {
    let (slots, cls) = gen_slots(r);
    out.count(&format!("diff_slots_{cls}"));
    let nodes: Vec<(usize, [u8; 32])> = slots.iter().map(|&s| (s, gen_node(r))).collect();
    let elided = if r.chance(1, 2) { 0 } else { r.next() };
    let mut page = vec![0u8; PAGE];
    if garbage {
        // a pool page: undefined content outside what the walker wrote
        for c in page.chunks_mut(8) {
            c.copy_from_slice(&r.next().to_le_bytes());
        }
    }
    for (s, n) in &nodes {
        page[s * 32..s * 32 + 32].copy_from_slice(n);
    }
    page[PAGE - 40..PAGE - 32].copy_from_slice(&elided.to_le_bytes());
    set_label(&mut page, pid);
    Ch { pid: pid.clone(), page, diff: words_of(&slots), bk: fresh_bk(r), cover_plan: if garbage { None } else { Some((nodes, elided)) } }
}

/// a page id whose allocation in `meta` (one byte per bucket) returns `want`
fn find_pid_for_bucket(r: &mut Rng, t: &Tbl, meta_n: &[u8], want: usize, avoid: &BTreeSet<[u8; 32]>) -> Option<PageId> {
    for _ in 0..600 {
        let q = fresh_page_id(r, t, avoid);
        let mut m = meta_n.to_vec();
        if allocate_bucket(&mut m, &q, &t.seed) == Some(want as u64) {
            return Some(q);
        }
    }
    None
}

fn gen_plan(r: &mut Rng, t: &Tbl, out: &mut Sink) -> Plan {
    let stored: Vec<(PageId, usize)> = t.stored.values().cloned().collect();
    let mut changes: Vec<Ch> = Vec::new();
    let mut kinds: Vec<&'static str> = Vec::new();
    let mut contract = true;
    let mut covering = true;
    let mut used: BTreeSet<[u8; 32]> = BTreeSet::new();
    let shape = r.below(20);
    // ---- directed shapes
    if shape == 0 {
        kinds.push("empty-changeset");
        return Plan { changes, contract, covering, kinds };
    }
    if shape == 1 && !stored.is_empty() && t.n <= 1024 {
        // a page cleared and ANOTHER page taking the freed bucket in the same sync
        let (p, b) = r.pick(&stored).clone();
        let mut m = t.meta[..t.n].to_vec();
        m[b] = 0x7f;
        used.insert(p.encode());
        if let Some(q) = find_pid_for_bucket(r, t, &m, b, &used) {
            changes.push(ch_clear(r, &p, b));
            changes.push(ch_fresh(r, &q, out, false));
            used.insert(q.encode());
            kinds.push("clear-then-steal-bucket");
        } else {
            changes.push(ch_clear(r, &p, b));
            kinds.push("clear");
        }
    } else if shape == 2 && !stored.is_empty() {
        // the same page id cleared and re-created in one changeset (the iterator comes from a HashMap in the store, so this
        // is outside the caller contract; the code allows it)
        let (p, b) = r.pick(&stored).clone();
        changes.push(ch_clear(r, &p, b));
        changes.push(ch_fresh(r, &p, out, false));
        used.insert(p.encode());
        kinds.push("clear-then-recreate-same-id");
        contract = false;
    } else if shape == 3 || (t.n >= 4095 && shape < 12) {
        // meta-map page boundary: pages whose probe sequence starts at bucket 4095 / 4096 (two meta pages change in one
        // sync), resp. at the last bucket of a table that fills exactly one meta page (the probe wraps around to bucket 0)
        if t.n >= 4095 {
            let wants: Vec<usize> = if t.n > 4096 { vec![4095, 4096, 4095, 4096] } else { vec![t.n - 1, t.n - 1, t.n - 2] };
            for want in wants {
                for _ in 0..40000 {
                    let q = fresh_page_id(r, t, &used);
                    if hash_raw_page_id(q.encode(), &t.seed) % t.n as u64 == want as u64 {
                        changes.push(ch_fresh(r, &q, out, false));
                        used.insert(q.encode());
                        kinds.push("meta-page-boundary");
                        break;
                    }
                }
            }
        }
    }
    // ---- the general mix
    let k = match r.below(6) {
        0 => 1,
        1 => 2,
        2 => r.range(8, 20),
        _ => r.range(2, 7),
    };
    for _ in 0..k {
        let avail: Vec<&(PageId, usize)> = stored.iter().filter(|(p, _)| !used.contains(&p.encode())).collect();
        let c = r.below(10);
        if (c < 4 || avail.is_empty()) && c != 9 {
            let q = fresh_page_id(r, t, &used);
            used.insert(q.encode());
            let garbage = r.chance(1, 6);
            if garbage {
                covering = false;
                kinds.push("fresh-garbage-pool-page");
            } else {
                kinds.push("fresh");
            }
            changes.push(ch_fresh(r, &q, out, garbage));
        } else if c < 7 && !avail.is_empty() {
            let (p, b) = (*r.pick(&avail)).clone();
            used.insert(p.encode());
            let omit = r.chance(1, 12);
            if omit {
                covering = false;
                kinds.push("update-diff-omits-changed-slot");
            } else {
                kinds.push("update");
            }
            changes.push(ch_update(r, t, &p, b, out, omit));
        } else if c < 9 && !avail.is_empty() {
            let (p, b) = (*r.pick(&avail)).clone();
            used.insert(p.encode());
            kinds.push("clear");
            changes.push(ch_clear(r, &p, b));
        } else {
            // ---- outside the contract
            contract = false;
            match r.below(8) {
                0 => {
                    let q = fresh_page_id(r, t, &used);
                    let mut ch = ch_clear(r, &q, 0);
                    ch.bk = fresh_bk(r);
                    changes.push(ch);
                    kinds.push("malformed-cleared-without-bucket");
                }
                1 => {
                    let q = fresh_page_id(r, t, &used);
                    let bl = mp(t.n) * PAGE;
                    let b = *r.pick(&[bl, bl + 1, t.n, bl - 1, u32::MAX as usize, usize::MAX]);
                    changes.push(ch_clear(r, &q, b));
                    kinds.push("malformed-cleared-bucket-out-of-range");
                }
                2 if !avail.is_empty() => {
                    // two pages claiming the same known bucket
                    let (p, b) = (*r.pick(&avail)).clone();
                    used.insert(p.encode());
                    changes.push(ch_update(r, t, &p, b, out, false));
                    let q = fresh_page_id(r, t, &used);
                    used.insert(q.encode());
                    let mut ch = ch_fresh(r, &q, out, false);
                    ch.bk = SimBucket::Known(b as u64);
                    changes.push(ch);
                    kinds.push("malformed-two-pages-one-bucket");
                }
                3 => {
                    let q = fresh_page_id(r, t, &used);
                    used.insert(q.encode());
                    let mut ch = ch_fresh(r, &q, out, false);
                    ch.diff[1] |= 1 << 62;
                    changes.push(ch);
                    kinds.push("malformed-reserved-diff-bit");
                }
                4 => {
                    // a known bucket that is not the page's
                    let q = fresh_page_id(r, t, &used);
                    used.insert(q.encode());
                    let mut ch = ch_fresh(r, &q, out, false);
                    ch.bk = SimBucket::Known(r.below(t.n) as u64);
                    changes.push(ch);
                    kinds.push("malformed-known-bucket-of-another-page");
                }
                5 => {
                    let q = fresh_page_id(r, t, &used);
                    used.insert(q.encode());
                    let mut ch = ch_fresh(r, &q, out, false);
                    let other = gen_page_id(r);
                    set_label(&mut ch.page, &other);
                    changes.push(ch);
                    kinds.push("malformed-label-differs-from-page-id");
                }
                6 if !avail.is_empty() => {
                    // the same page twice
                    let (p, b) = (*r.pick(&avail)).clone();
                    used.insert(p.encode());
                    changes.push(ch_update(r, t, &p, b, out, false));
                    changes.push(ch_update(r, t, &p, b, out, false));
                    kinds.push("malformed-same-page-twice");
                }
                _ => {
                    // a stored page announced as fresh: a second bucket for the same id
                    if let Some((p, _)) = avail.first().map(|x| (*x).clone()) {
                        used.insert(p.encode());
                        changes.push(ch_fresh(r, &p, out, false));
                        kinds.push("malformed-stored-page-as-fresh");
                    }
                }
            }
        }
    }
    Plan { changes, contract, covering, kinds }
}

// ------------------------------------------------------------------------------------------------ the real call

enum Outcome {
    Ok { ht: Vec<(u64, Vec<u8>)>, cache: Vec<([u8; 32], Option<u64>)> },
    Exhausted,
    Panic,
}

struct Run {
    outcome: Outcome,
    wal: Vec<u8>,
    meta: Vec<u8>,
    occupied: usize,
    full: usize,
    cells: Vec<Option<Option<u64>>>,
}

fn real_sync(sim: &mut Option<PrepareSim>, t: &Tbl, occ: usize, wsize: Option<usize>, seqn: u32, changes: &[Ch]) -> Run {
    if sim.is_none() {
        *sim = Some(PrepareSim::new(t.n as u32, t.seed, wsize).expect("PrepareSim::new"));
    }
    let dirty: Vec<SimDirty> = changes.iter().map(|c| c.dirty()).collect();
    let n = changes.len();
    let res = {
        let s = sim.as_mut().unwrap();
        s.set_state(&t.meta, occ);
        catch_unwind(AssertUnwindSafe(|| s.run(seqn, dirty)))
    };
    match res {
        Ok(o) => {
            let s = sim.as_ref().unwrap();
            let run = Run {
                outcome: match o.result {
                    Ok(()) => Outcome::Ok { ht: o.ht, cache: o.cache },
                    Err(()) => Outcome::Exhausted,
                },
                wal: s.wal(),
                meta: s.meta(),
                occupied: s.occupied(),
                full: s.full_count(),
                cells: (0..n).map(|i| s.cell(i)).collect(),
            };
            run
        }
        Err(_) => {
            // the builder / the locks of a simulator that unwound are not reused
            *sim = None;
            Run { outcome: Outcome::Panic, wal: vec![], meta: vec![], occupied: 0, full: 0, cells: vec![] }
        }
    }
}

// ------------------------------------------------------------------------------------------------ one sync

struct SyncCtx<'a> {
    dir: &'a str,
    case: usize,
    replay: String,
}

/// returns the table after the sync (write-out applied), or `None` when the call failed
fn one_sync(r: &mut Rng, out: &mut Sink, ctx: &SyncCtx, sim: &mut Option<PrepareSim>, t: &Tbl, wsize: Option<usize>, emit: bool, plan: Plan) -> Option<Tbl> {
    let Plan { mut changes, contract, covering, kinds } = plan;
    let seqn: u32 = match r.below(5) {
        0 => 0,
        1 => u32::MAX,
        _ => r.next() as u32,
    };
    let occ0 = t.full_count();
    let dbg = PrepareSim::debug_assertions();
    let off = mp(t.n);
    // ---- pre-pass: learn the buckets of the fresh pages, then build their content from the stale content of those buckets
    if changes.iter().any(|c| c.cover_plan.is_some()) {
        let pre = real_sync(sim, t, occ0, wsize, seqn, &changes);
        if let Outcome::Ok { cache, .. } = &pre.outcome {
            // cache updates are in changeset order
            if cache.len() == changes.len() {
                for (i, c) in changes.iter_mut().enumerate() {
                    if let (Some((nodes, elided)), Some(b)) = (&c.cover_plan, cache[i].1) {
                        let mut page = t.page(b as usize);
                        for (s, n) in nodes {
                            page[s * 32..s * 32 + 32].copy_from_slice(n);
                        }
                        page[PAGE - 40..PAGE - 32].copy_from_slice(&elided.to_le_bytes());
                        let label: [u8; 32] = c.page[PAGE - 32..].try_into().unwrap();
                        page[PAGE - 32..].copy_from_slice(&label);
                        c.page = page;
                    }
                }
            }
        }
    }
    let run = real_sync(sim, t, occ0, wsize, seqn, &changes);
    let op = format!(
        "prepsync {} {} {seqn} {} {occ0} {} {} {}",
        dbg as u8,
        hex(&t.seed),
        t.n,
        wsize.unwrap_or(1 << 30),
        rle(&t.meta[..t.n]),
        if changes.is_empty() { "-".to_string() } else { changes.iter().map(|c| c.show()).collect::<Vec<_>>().join(";") }
    );
    for k in &kinds {
        out.count(&format!("change_{k}"));
    }
    out.count(&format!("changeset_{}", match changes.len() { 0 => "0", 1 => "1", 2..=7 => "2-7", _ => "8+" }));
    out.count(if contract { "sync_in_contract" } else { "sync_outside_contract" });
    let imp = match &run.outcome {
        Outcome::Panic => "panic".to_string(),
        Outcome::Exhausted => format!("err exhaustion meta={} full={}", fnv(&run.meta), run.full),
        Outcome::Ok { ht, cache } => {
            // `changed_meta_pages` is a HashSet: without the debug block the meta pages come in an unspecified order
            let mut ht2 = ht.clone();
            if !dbg {
                let k = changes.iter().filter(|c| !c.cleared()).count().min(ht2.len());
                ht2[k..].sort_by_key(|x| x.0);
            }
            let cells: Vec<String> = cache
                .iter()
                .enumerate()
                .map(|(i, (_, b))| match b {
                    Some(b) => b.to_string(),
                    // a cleared page: its bucket is the one it was given
                    None => match changes[i].bk {
                        SimBucket::Known(b) | SimBucket::DependentSet(b) => b.to_string(),
                        _ => "?".into(),
                    },
                })
                .collect();
            let mut cb: Vec<u8> = Vec::new();
            for (pid, b) in cache {
                cb.extend_from_slice(pid);
                match b {
                    Some(b) => {
                        cb.push(1);
                        cb.extend_from_slice(&b.to_le_bytes());
                    }
                    None => cb.push(0),
                }
            }
            format!(
                "ok occ={} full={} wal={}/{} meta={} ht={} cells={} cache={}",
                run.occupied,
                run.full,
                run.wal.len(),
                fnv(&run.wal),
                fnv(&run.meta),
                if ht2.is_empty() { "-".to_string() } else { ht2.iter().map(|(pn, p)| format!("{pn}/{}", fnv(p))).collect::<Vec<_>>().join(",") },
                if cells.is_empty() { "-".to_string() } else { cells.join(".") },
                fnv(&cb)
            )
        }
    };
    if emit {
        out.line(op.clone(), imp.clone());
        out.nontrivial(&op);
        if out.samples.len() < 3 {
            let mut s = op.clone();
            s.truncate(240);
            out.samples.push(s);
        }
    }
    let tag = format!("(case {} — replay: {})", ctx.case, ctx.replay);
    let (ht, cache) = match &run.outcome {
        Outcome::Panic => {
            out.count("outcome_panic");
            if contract {
                out.fail(format!("C04 prepare_sync panicked on a changeset inside its contract {tag}"));
            }
            return None;
        }
        Outcome::Exhausted => {
            out.count("outcome_bucket_exhaustion");
            // C14 neighbourhood: the error path; the exact condition: no free bucket on the page's probe sequence
            return None;
        }
        Outcome::Ok { ht, cache } => (ht, cache),
    };
    out.count("outcome_ok");
    // ---------------------------------------------------------------- the table after the write-out
    let mut t2 = t.clone();
    for (pn, p) in ht {
        let pn = *pn as usize;
        if pn < off {
            t2.meta[pn * PAGE..(pn + 1) * PAGE].copy_from_slice(p);
        } else {
            t2.pages.insert(pn - off, p.clone());
        }
    }
    // bucket of every page, in changeset order
    let buckets: Vec<Option<usize>> = cache
        .iter()
        .enumerate()
        .map(|(i, (_, b))| match b {
            Some(b) => Some(*b as usize),
            None => match changes[i].bk {
                SimBucket::Known(b) | SimBucket::DependentSet(b) => Some(b as usize),
                _ => None,
            },
        })
        .collect();
    for (i, c) in changes.iter().enumerate() {
        if c.cleared() {
            t2.stored.remove(&c.pid.encode());
        } else if let Some(b) = buckets.get(i).copied().flatten() {
            t2.stored.insert(c.pid.encode(), (c.pid.clone(), b));
        }
    }
    if !contract {
        // differential only (and whatever the real code says about its own result below)
        observe_outside_contract(out, ctx, t, &t2, &run, seqn, &kinds);
        return None;
    }
    // ---------------------------------------------------------------- (v) the blob, read back by the real reader
    if cache.len() != changes.len() || cache.iter().zip(&changes).any(|(a, c)| a.0 != c.pid.encode()) {
        out.fail(format!("C04 cache updates are not one per page of the changeset in order {tag}"));
    }
    for (i, c) in changes.iter().enumerate() {
        let cell = run.cells.get(i).copied().flatten();
        match c.bk {
            SimBucket::DependentUnset if !c.cleared() => {
                if cell != Some(buckets[i].map(|b| b as u64)) {
                    out.fail(format!("C04 the shared cell of fresh page {i} holds {cell:?}, the page went to bucket {:?} {tag}", buckets[i]));
                }
                out.count("cell_published");
            }
            _ => {}
        }
    }
    let expected_entries: Vec<PlainWalEntry> = changes
        .iter()
        .enumerate()
        .map(|(i, c)| {
            let b = buckets[i].unwrap_or(usize::MAX) as u64;
            if c.cleared() {
                PlainWalEntry::Clear { bucket: b }
            } else {
                PlainWalEntry::Update {
                    page_id: c.pid.encode(),
                    page_diff: c.diff,
                    changed_nodes: (0..128).filter(|&s| named(&c.diff, s)).map(|s| c.page[s * 32..s * 32 + 32].try_into().unwrap()).collect(),
                    elided_children: u64::from_le_bytes(c.page[PAGE - 40..PAGE - 32].try_into().unwrap()),
                    bucket: b,
                }
            }
        })
        .collect();
    std::fs::write(format!("{}/wal", ctx.dir), &run.wal).unwrap();
    {
        let wf = std::fs::File::open(format!("{}/wal", ctx.dir)).unwrap();
        match catch_unwind(AssertUnwindSafe(|| wal_read(&wf))) {
            Ok(Ok((s, es, Ok(())))) => {
                if s != seqn || es != expected_entries {
                    out.fail(format!("C03 the WAL blob of prepare_sync reads back as seqn {s} / {} entries, expected seqn {seqn} / {} entries (one per page, with its bucket) {tag}", es.len(), expected_entries.len()));
                }
                out.count("wal_read_back");
            }
            other => out.fail(format!("C03 the real reader does not accept the WAL blob of prepare_sync: {:?} {tag}", other.map(|x| x.map(|y| y.2)))),
        }
    }
    // ---------------------------------------------------------------- (i) redo = write-out, by the REAL recover
    let img0 = t.image();
    let mut exp = img0.clone();
    for (pn, p) in ht {
        let pn = *pn as usize;
        if (pn + 1) * PAGE <= exp.len() {
            exp[pn * PAGE..(pn + 1) * PAGE].copy_from_slice(p);
        }
    }
    {
        let mut f = std::fs::File::create(format!("{}/ht", ctx.dir)).expect("create ht");
        f.set_len(img0.len() as u64).unwrap();
        f.write_all(&t.meta).unwrap();
        for (b, p) in &t.pages {
            if *b < t.n {
                f.seek(SeekFrom::Start(((off + b) * PAGE) as u64)).unwrap();
                f.write_all(p).unwrap();
            }
        }
    }
    let htf = std::fs::OpenOptions::new().read(true).write(true).open(format!("{}/ht", ctx.dir)).unwrap();
    let wf = std::fs::OpenOptions::new().read(true).write(true).open(format!("{}/wal", ctx.dir)).unwrap();
    let (n32, seed2) = (t.n as u32, t.seed);
    let rec = catch_unwind(AssertUnwindSafe(move || open_and_recover(seqn, n32, seed2, htf, wf)));
    match rec {
        Ok(Ok(())) => {
            let got = std::fs::read(format!("{}/ht", ctx.dir)).unwrap();
            out.count("recover_compared");
            if std::fs::metadata(format!("{}/wal", ctx.dir)).map(|m| m.len()).unwrap_or(1) != 0 {
                out.fail(format!("C03 recovery left a non-empty WAL {tag}"));
            }
            if got.len() != exp.len() {
                out.fail(format!("C04 recovery changed the size of the hash table {tag}"));
            } else {
                // the general clause: on meta bytes, label / elided field and named slots redo = write-out; elsewhere redo keeps the old byte
                let mut allowed_diff = 0usize;
                let mut bad: Option<String> = None;
                if got[..off * PAGE] != exp[..off * PAGE] {
                    let at = (0..off * PAGE).find(|&i| got[i] != exp[i]).unwrap();
                    bad = Some(format!("meta byte of bucket {at}: redo {:02x}, write-out {:02x}, before {:02x}", got[at], exp[at], img0[at]));
                }
                let named_of: HashMap<usize, [u64; 2]> =
                    changes.iter().enumerate().filter(|(_, c)| !c.cleared()).filter_map(|(i, c)| buckets[i].map(|b| (b, c.diff))).collect();
                for b in 0..t.n {
                    let lo = (off + b) * PAGE;
                    if got[lo..lo + PAGE] == exp[lo..lo + PAGE] {
                        continue;
                    }
                    for o in 0..PAGE {
                        if got[lo + o] == exp[lo + o] {
                            continue;
                        }
                        let is_named = named_of.get(&b).map_or(false, |d| o >= 4056 || named(d, o / 32));
                        if is_named || !named_of.contains_key(&b) || got[lo + o] != img0[lo + o] {
                            if bad.is_none() {
                                bad = Some(format!("bucket {b} offset {o}: redo {:02x}, write-out {:02x}, before {:02x}", got[lo + o], exp[lo + o], img0[lo + o]));
                            }
                        } else {
                            allowed_diff += 1;
                        }
                    }
                }
                if let Some(m) = bad {
                    out.fail(format!("C04 redo of the WAL differs from the write-out of the same sync where the WAL must cover it — {m} {tag}"));
                } else if covering && allowed_diff > 0 {
                    out.fail(format!("C04 redo of the WAL is not byte-identical to the write-out although every diff names every differing slot ({allowed_diff} bytes) {tag}"));
                } else if covering {
                    out.count("redo_equals_writeout_bytewise");
                } else if allowed_diff > 0 {
                    // the diff omitted a slot that differs (F20 / the seeded change / an un-zeroed pool page): redo leaves the OLD slot
                    out.count("redo_keeps_old_byte_where_diff_omits");
                    out.add("redo_bytes_not_covered", allowed_diff as u64);
                } else {
                    out.count("redo_equals_writeout_bytewise");
                }
                // ---- (ii) redo touches nothing foreign
                let mut touched: BTreeSet<usize> = BTreeSet::new();
                for b in 0..t.n {
                    let lo = (off + b) * PAGE;
                    if got[lo..lo + PAGE] != img0[lo..lo + PAGE] {
                        touched.insert(b);
                    }
                }
                let mine: BTreeSet<usize> = named_of.keys().cloned().collect();
                if let Some(b) = touched.difference(&mine).next() {
                    out.fail(format!("C17 recovery wrote bucket {b}, which belongs to no page of the changeset {tag}"));
                }
            }
        }
        Ok(Err(e)) => out.fail(format!("C03 recovery of the WAL of prepare_sync fails: {e:#} {tag}")),
        Err(_) => out.fail(format!("C03 recovery of the WAL of prepare_sync panics {tag}")),
    }
    // ---------------------------------------------------------------- (i') a crash in the middle of the write-out: any subset of the
    // returned pages already on disk (4 KiB pages atomic), then the REAL recover: must give the completed write-out
    if covering && !ht.is_empty() && r.chance(1, 2) && t.n <= 1024 {
        let mut part = img0.clone();
        let mut taken = 0;
        for (pn, p) in ht {
            if r.chance(1, 2) {
                let pn = *pn as usize;
                part[pn * PAGE..(pn + 1) * PAGE].copy_from_slice(p);
                taken += 1;
            }
        }
        std::fs::write(format!("{}/ht", ctx.dir), &part).unwrap();
        std::fs::write(format!("{}/wal", ctx.dir), &run.wal).unwrap();
        let htf = std::fs::OpenOptions::new().read(true).write(true).open(format!("{}/ht", ctx.dir)).unwrap();
        let wf = std::fs::OpenOptions::new().read(true).write(true).open(format!("{}/wal", ctx.dir)).unwrap();
        let (n32, seed2) = (t.n as u32, t.seed);
        match catch_unwind(AssertUnwindSafe(move || open_and_recover(seqn, n32, seed2, htf, wf))) {
            Ok(Ok(())) => {
                let got = std::fs::read(format!("{}/ht", ctx.dir)).unwrap();
                if got != exp {
                    out.fail(format!("C04 recovery after a partial write-out ({taken} of {} pages on disk) does not give the completed write-out {tag}", ht.len()));
                }
                out.count("partial_writeout_recovered");
            }
            _ => out.fail(format!("C04 recovery after a partial write-out fails {tag}")),
        }
    }
    // ---------------------------------------------------------------- (ii) C17: the ht list names only what changed
    let upd_buckets: BTreeMap<usize, usize> = changes.iter().enumerate().filter(|(_, c)| !c.cleared()).filter_map(|(i, _)| buckets[i].map(|b| (b, i))).collect();
    let cleared_pids: BTreeSet<[u8; 32]> = changes.iter().filter(|c| c.cleared()).map(|c| c.pid.encode()).collect();
    let owner_before: HashMap<usize, [u8; 32]> = t.stored.iter().map(|(k, (_, b))| (*b, *k)).collect();
    let mut changed_buckets: BTreeSet<usize> = BTreeSet::new();
    for b in 0..t.meta.len() {
        if t.meta[b] != run.meta[b] {
            changed_buckets.insert(b);
        }
    }
    let mut seen_pn: BTreeSet<u64> = BTreeSet::new();
    for (pn, p) in ht {
        if !seen_pn.insert(*pn) {
            out.fail(format!("C17 hash-table page {pn} is in the write list twice {tag}"));
        }
        let pn = *pn as usize;
        if pn >= off {
            let b = pn - off;
            match upd_buckets.get(&b) {
                None => out.fail(format!("C17 the write list holds bucket {b}, which is the bucket of no updated page {tag}")),
                Some(&i) => {
                    if *p != changes[i].page {
                        out.fail(format!("C04 the page written to bucket {b} is not the page of the changeset {tag}"));
                    }
                    if let Some(o) = owner_before.get(&b) {
                        if *o != changes[i].pid.encode() && !cleared_pids.contains(o) {
                            out.fail(format!("C17 bucket {b} of stored page {} is overwritten with page {} {tag}", hex(o), hex(&changes[i].pid.encode())));
                        }
                    }
                }
            }
        } else {
            if !changed_buckets.iter().any(|b| b / PAGE == pn) {
                out.fail(format!("C17 meta page {pn} is written although none of its buckets changed {tag}"));
            }
            if p[..] != run.meta[pn * PAGE..(pn + 1) * PAGE] {
                out.fail(format!("C04 meta page {pn} of the write list is not the in-memory meta map {tag}"));
            }
        }
    }
    for b in &changed_buckets {
        if !ht.iter().any(|(pn, _)| *pn as usize == b / PAGE) {
            out.fail(format!("C04 the meta byte of bucket {b} changed but its meta page is not written {tag}"));
        }
        let is_mine = upd_buckets.contains_key(b) || changes.iter().enumerate().any(|(i, c)| c.cleared() && buckets[i] == Some(*b));
        if !is_mine {
            out.fail(format!("C17 the meta byte of bucket {b} changed, which is the bucket of no page of the changeset {tag}"));
        }
    }
    for (&b, &i) in &upd_buckets {
        if !ht.iter().any(|(pn, _)| *pn as usize == off + b) {
            out.fail(format!("C04 updated page {i} (bucket {b}) is missing from the write list {tag}"));
        }
    }
    if t2.meta != run.meta {
        out.fail(format!("C04 the meta pages of the write list do not bring the file's meta map to the in-memory one {tag}"));
    }
    // ---------------------------------------------------------------- (iii) occupancy
    if run.occupied != run.full || run.full != t2.stored.len() {
        out.fail(format!("C19 occupied_buckets = {}, full meta bytes = {}, stored pages = {} {tag}", run.occupied, run.full, t2.stored.len()));
    }
    out.count("occupancy_compared");
    // ---------------------------------------------------------------- (iv) every stored page is found, no other
    if let Some(s) = sim.as_ref() {
        let label_of = |b: u64| -> [u8; 32] { t2.page(b as usize)[PAGE - 32..].try_into().unwrap() };
        let mut probe: Vec<(PageId, Option<usize>)> = t2.stored.values().map(|(p, b)| (p.clone(), Some(*b))).collect();
        if probe.len() > 400 {
            // all pages of the changeset + a sample of the others
            let keep: BTreeSet<[u8; 32]> = changes.iter().map(|c| c.pid.encode()).collect();
            let mut i = 0;
            probe.retain(|(p, _)| {
                i += 1;
                keep.contains(&p.encode()) || i % 16 == 0
            });
        }
        for c in changes.iter().filter(|c| c.cleared()) {
            if !t2.stored.contains_key(&c.pid.encode()) {
                probe.push((c.pid.clone(), None));
            }
        }
        for _ in 0..3 {
            probe.push((fresh_page_id(r, &t2, &BTreeSet::new()), None));
        }
        for (p, want) in probe {
            let got = s.lookup(&p, &label_of).map(|b| b as usize);
            out.count("lookups");
            if got != want {
                out.fail(format!("C05 after the sync page {} is looked up in bucket {got:?}, expected {want:?} {tag}", hex(&p.encode())));
            }
        }
    }
    // ---------------------------------------------------------------- events worth counting
    for (i, c) in changes.iter().enumerate() {
        if c.cleared() {
            continue;
        }
        if let (SimBucket::FreshWithNoDependents | SimBucket::DependentUnset, Some(b)) = (c.bk, buckets[i]) {
            let h = hash_raw_page_id(c.pid.encode(), &t.seed);
            let start = (h % t.n as u64) as usize;
            if b != start {
                out.count("alloc_probe_moved_on");
            }
            if b < start {
                out.count("alloc_probe_wrapped_around");
            }
            let tag_byte = 0x80 | (h >> 57) as u8;
            if t.meta[..t.n].iter().any(|&x| x == tag_byte) {
                out.count("alloc_same_tag_in_table");
            }
            if t.meta[b] == 0x7f {
                out.count("alloc_reuses_tombstone");
            }
            if changes[..i].iter().enumerate().any(|(j, d)| d.cleared() && buckets[j] == Some(b)) {
                out.count("alloc_reuses_bucket_freed_in_same_sync");
            }
            if b == 4095 || b == 4096 {
                out.count("bucket_at_meta_page_boundary");
            }
        }
    }
    if ht.iter().filter(|(pn, _)| (*pn as usize) < off).count() > 1 {
        out.count("two_meta_pages_written");
    }
    Some(t2)
}

/// outside the contract nothing is promised; record what the real code does with its own WAL
fn observe_outside_contract(out: &mut Sink, ctx: &SyncCtx, t: &Tbl, t2: &Tbl, run: &Run, seqn: u32, kinds: &[&'static str]) {
    if t.n > 2048 {
        return;
    }
    let off = mp(t.n);
    let img0 = t.image();
    std::fs::write(format!("{}/ht", ctx.dir), &img0).unwrap();
    std::fs::write(format!("{}/wal", ctx.dir), &run.wal).unwrap();
    let htf = std::fs::OpenOptions::new().read(true).write(true).open(format!("{}/ht", ctx.dir)).unwrap();
    let wf = std::fs::OpenOptions::new().read(true).write(true).open(format!("{}/wal", ctx.dir)).unwrap();
    let (n32, seed2) = (t.n as u32, t.seed);
    let rec = catch_unwind(AssertUnwindSafe(move || open_and_recover(seqn, n32, seed2, htf, wf)));
    let what = kinds.iter().filter(|k| k.starts_with("malformed") || k.starts_with("clear-then-recreate")).next().unwrap_or(&"other");
    match rec {
        Ok(Ok(())) => {
            let got = std::fs::read(format!("{}/ht", ctx.dir)).unwrap();
            let mut exp = t2.image();
            exp.truncate(got.len());
            let same_meta = got[..off * PAGE] == exp[..off * PAGE];
            out.count(&format!("outside_contract_{what}_redo_meta_{}", if same_meta { "equal" } else { "DIFFERS" }));
        }
        Ok(Err(_)) => out.count(&format!("outside_contract_{what}_recover_refuses")),
        Err(_) => out.count(&format!("outside_contract_{what}_recover_panics")),
    }
}

// ------------------------------------------------------------------------------------------------ cases

fn fill_table(r: &mut Rng, out: &mut Sink, ctx: &SyncCtx, sim: &mut Option<PrepareSim>, t: Tbl, count: usize, tomb: usize) -> Tbl {
    // bulk insert through the real prepare_sync (not a protocol line when large), then tombstones by a sync of clears
    let mut t = t;
    let mut done = 0;
    while done < count {
        let k = (count - done).min(64);
        let mut used = BTreeSet::new();
        let mut changes = Vec::new();
        for _ in 0..k {
            let q = fresh_page_id(r, &t, &used);
            used.insert(q.encode());
            let mut c = ch_fresh(r, &q, &mut Sink::new(), false);
            c.cover_plan = None;
            changes.push(c);
        }
        let plan = Plan { changes, contract: true, covering: false, kinds: vec![] };
        match one_sync_quiet(r, out, ctx, sim, &t, plan) {
            Some(t2) => t = t2,
            None => break,
        }
        done += k;
    }
    let mut stored: Vec<(PageId, usize)> = t.stored.values().cloned().collect();
    let mut cleared = 0;
    while cleared < tomb && !stored.is_empty() {
        let k = (tomb - cleared).min(64).min(stored.len());
        let mut changes = Vec::new();
        for _ in 0..k {
            let i = r.below(stored.len());
            let (p, b) = stored.swap_remove(i);
            changes.push(ch_clear(r, &p, b));
        }
        let plan = Plan { changes, contract: true, covering: true, kinds: vec![] };
        match one_sync_quiet(r, out, ctx, sim, &t, plan) {
            Some(t2) => t = t2,
            None => break,
        }
        cleared += k;
    }
    t
}

/// a sync that builds up a table: real code, table advanced, no protocol line, no oracles beyond the bookkeeping
fn one_sync_quiet(r: &mut Rng, _out: &mut Sink, _ctx: &SyncCtx, sim: &mut Option<PrepareSim>, t: &Tbl, plan: Plan) -> Option<Tbl> {
    let seqn = r.next() as u32;
    let run = real_sync(sim, t, t.full_count(), None, seqn, &plan.changes);
    let Outcome::Ok { ht, cache } = &run.outcome else { return None };
    let off = mp(t.n);
    let mut t2 = t.clone();
    for (pn, p) in ht {
        let pn = *pn as usize;
        if pn < off {
            t2.meta[pn * PAGE..(pn + 1) * PAGE].copy_from_slice(p);
        } else {
            t2.pages.insert(pn - off, p.clone());
        }
    }
    for (i, c) in plan.changes.iter().enumerate() {
        if c.cleared() {
            t2.stored.remove(&c.pid.encode());
        } else if let Some(b) = cache[i].1 {
            t2.stored.insert(c.pid.encode(), (c.pid.clone(), b as usize));
        }
    }
    Some(t2)
}

// ------------------------------------------------------------------------------------------------ walker pages through WAL + redo

/// a page the REAL page walker handed out without a bucket (created, or reconstructed and promoted)
pub struct FreshPage {
    pub pid: PageId,
    /// the 126 node slots as the walker left them (what it did not write is whatever the pool page held)
    pub nodes: Vec<[u8; 32]>,
    pub elided: u64,
    pub diff: [u64; 2],
    /// the slots whose content the trie defines (the parent position holds at least two keys)
    pub meaningful: Vec<usize>,
}

/// C16 / C03 / C04, composed on real code: the pages of a REAL walk that go to fresh buckets → the REAL `prepare_sync` on a
/// table whose free buckets (and tombstones) hold stale bytes of earlier occupants → a crash before / in the middle of the
/// write-out → the REAL `recover`. The WAL entry carries only the slots the diff names and redo writes them over the
/// BUCKET's old bytes (not over the pool page), so: after recovery every meaningful slot, the elided-children field and the
/// label of each page must be the walker's. Slots that are not meaningful may keep stale bytes (counted, never read:
/// the reader descends only below internal nodes).
pub fn redo_of_walker_pages(out: &mut Sink, r: &mut Rng, dir: &str, pages: &[FreshPage], what: &str) {
    if pages.is_empty() {
        return;
    }
    let n = pages.len() * 3 + 8 + r.below(64);
    let mut seed16 = [0u8; 16];
    seed16.copy_from_slice(&r.bytes32()[..16]);
    let mut t = Tbl::new(n, seed16);
    for b in 0..n {
        let mut p = vec![0u8; PAGE];
        for c in p.chunks_mut(8) {
            c.copy_from_slice(&r.next().to_le_bytes());
        }
        t.pages.insert(b, p);
        if r.chance(1, 3) {
            t.meta[b] = 0x7f;
        }
    }
    let changes: Vec<Ch> = pages
        .iter()
        .map(|p| {
            let mut page = vec![0u8; PAGE];
            for c in page[4032..4056].chunks_mut(8) {
                c.copy_from_slice(&r.next().to_le_bytes());
            }
            for (i, nd) in p.nodes.iter().enumerate().take(126) {
                page[i * 32..i * 32 + 32].copy_from_slice(nd);
            }
            page[PAGE - 40..PAGE - 32].copy_from_slice(&p.elided.to_le_bytes());
            set_label(&mut page, &p.pid);
            Ch { pid: p.pid.clone(), page, diff: p.diff, bk: fresh_bk(r), cover_plan: None }
        })
        .collect();
    let seqn = r.next() as u32;
    let mut sim: Option<PrepareSim> = None;
    let run = real_sync(&mut sim, &t, 0, None, seqn, &changes);
    let (ht, cache) = match &run.outcome {
        Outcome::Ok { ht, cache } => (ht, cache),
        Outcome::Exhausted => {
            out.count("walker_redo_exhausted");
            return;
        }
        Outcome::Panic => {
            out.fail(format!("C04 {what}: prepare_sync panics on the fresh pages of a real walk"));
            return;
        }
    };
    if cache.len() != changes.len() {
        out.fail(format!("C04 {what}: {} cache updates for {} fresh pages", cache.len(), changes.len()));
        return;
    }
    let off = mp(n);
    let img0 = t.image();
    for variant in 0..2 {
        // 0: crash before any page of the write-out reached the disk; 1: a random subset of the write-out is on disk
        let mut img = img0.clone();
        if variant == 1 {
            for (pn, p) in ht {
                if r.chance(1, 2) {
                    let pn = *pn as usize;
                    img[pn * PAGE..(pn + 1) * PAGE].copy_from_slice(p);
                }
            }
        }
        std::fs::write(format!("{dir}/ht"), &img).unwrap();
        std::fs::write(format!("{dir}/wal"), &run.wal).unwrap();
        let htf = std::fs::OpenOptions::new().read(true).write(true).open(format!("{dir}/ht")).unwrap();
        let wf = std::fs::OpenOptions::new().read(true).write(true).open(format!("{dir}/wal")).unwrap();
        let (n32, seed2) = (n as u32, seed16);
        match catch_unwind(AssertUnwindSafe(move || open_and_recover(seqn, n32, seed2, htf, wf))) {
            Ok(Ok(())) => {}
            _ => {
                out.fail(format!("C03 {what}: recovery of the WAL holding the fresh pages of a real walk fails"));
                return;
            }
        }
        let got = std::fs::read(format!("{dir}/ht")).unwrap();
        if got.len() != img0.len() || got[..off * PAGE] != run.meta[..] {
            out.fail(format!("C04 {what}: after recovery the meta map is not the one of the sync"));
            continue;
        }
        for (i, p) in pages.iter().enumerate() {
            let b = match cache[i].1 {
                Some(b) => b as usize,
                None => {
                    out.fail(format!("C04 {what}: fresh page {} got no bucket", hex(&p.pid.encode())));
                    continue;
                }
            };
            let pg = &got[(off + b) * PAGE..(off + b + 1) * PAGE];
            if pg[PAGE - 32..] != p.pid.encode() {
                out.fail(format!("C03 {what}: after recovery bucket {b} does not carry the label of page {}", hex(&p.pid.encode())));
            }
            if pg[PAGE - 40..PAGE - 32] != p.elided.to_le_bytes() {
                out.fail(format!("C03 {what}: after recovery the elided-children field of page {} is not the walker's", hex(&p.pid.encode())));
            }
            let mut stale = 0u64;
            let mut lost = 0usize;
            for s in 0..126 {
                let same = pg[s * 32..s * 32 + 32] == p.nodes[s];
                if p.meaningful.contains(&s) {
                    if !same {
                        lost += 1;
                    }
                    if !same && lost == 1 {
                        out.fail(format!(
                            "C16 {what}: after WAL redo the meaningful slot {s} of page {} (fresh bucket {b}) holds {} — the walker's node is {} (diff names it: {})",
                            hex(&p.pid.encode()),
                            hex(&pg[s * 32..s * 32 + 32]),
                            hex(&p.nodes[s]),
                            named(&p.diff, s)
                        ));
                    }
                    out.count("walker_redo_meaningful_slots");
                } else if !same {
                    stale += 1;
                }
            }
            out.add("walker_redo_meaningful_slots_lost", lost as u64);
            out.add("walker_redo_stale_bytes_in_unread_slots", stale);
            out.count(if variant == 0 { "walker_redo_pages_checked" } else { "walker_redo_pages_checked_partial_writeout" });
        }
    }
    out.count("walker_redo_syncs");
}

pub fn run(seed: u64, cases: usize, out: &mut Sink) {
    let dir = format!("/dev/shm/nomt-verif-prepsync-{}-{seed}", std::process::id());
    let _ = std::fs::remove_dir_all(&dir);
    std::fs::create_dir_all(&dir).expect("mkdir");
    let mut rng = Rng::new(seed ^ 0x9E5C);
    let only: Option<usize> = std::env::var("VH_PREPSYNC_ONLY").ok().and_then(|s| s.parse().ok());
    for case in 0..cases {
        let mut r = rng.fork();
        if only.map_or(false, |o| o != case) {
            continue;
        }
        let ctx = SyncCtx { dir: &dir, case, replay: format!("VH_PREPSYNC_ONLY={case} vharness prepsync --seed {seed} --cases {cases}") };
        let mut seed16 = [0u8; 16];
        seed16.copy_from_slice(&r.bytes32()[..16]);
        // ---- the table
        let (n, style): (usize, &str) = match r.below(20) {
            0 => (*r.pick(&[1usize, 2, 3]), "tiny"),
            1 => (*r.pick(&[4097usize, 5000, 8192, 8193]), "two-or-three-meta-pages"),
            2 => (*r.pick(&[4095usize, 4096]), "one-full-meta-page"),
            3 | 4 => (r.range(4, 16), "small"),
            _ => (r.range(17, 300), "medium"),
        };
        let fill_style = r.below(6);
        let (count, tomb, fname): (usize, usize, &str) = match fill_style {
            0 => (0, 0, "empty"),
            1 => (n / 10 + 1, 0, "sparse"),
            2 => (n * 9 / 10, n / 20, "dense"),
            3 => (n * 9 / 10, n * 6 / 10, "tombstone-heavy"),
            4 => (n, 0, "full"),
            _ => (n / 2, n / 8, "half"),
        };
        // large tables: bounded work
        let (count, tomb) = if n > 4000 { (count.min(700), tomb.min(300)) } else { (count, tomb) };
        out.mark_case(format!("case {case} n={n} {style} fill={fname}"));
        out.count(&format!("table_{style}"));
        out.count(&format!("fill_{fname}"));
        let wsize = *r.pick(&[None, None, None, Some(4096usize), Some(8192), Some(1 << 16)]);
        let mut sim: Option<PrepareSim> = None;
        let mut t = fill_table(&mut r, out, &ctx, &mut sim, Tbl::new(n, seed16), count, tomb);
        if fill_style == 3 && r.chance(1, 2) {
            // no empty bucket left at all: every non-full bucket is a tombstone (long-lived store)
            for b in 0..n {
                if t.meta[b] == 0 {
                    t.meta[b] = 0x7f;
                }
            }
            out.count("table_without_empty_bucket");
        }
        if r.chance(1, 3) {
            // stale content in free buckets (a tombstone keeps its old page; here also random leftovers)
            for b in 0..n.min(400) {
                if t.meta[b] & 0x80 == 0 && !t.pages.contains_key(&b) && r.chance(1, 3) {
                    let mut p = vec![0u8; PAGE];
                    for c in p.chunks_mut(8) {
                        c.copy_from_slice(&r.next().to_le_bytes());
                    }
                    t.pages.insert(b, p);
                }
            }
        }
        // the builder of the emitted syncs (its mapping size is part of the line)
        sim = None;
        let syncs = r.range(1, 3);
        for _ in 0..syncs {
            let plan = gen_plan(&mut r, &t, out);
            match one_sync(&mut r, out, &ctx, &mut sim, &t, wsize, true, plan) {
                Some(t2) => t = t2,
                None => break,
            }
        }
    }
    let _ = std::fs::remove_dir_all(&dir);
}
