//! C01 / C19 / C16: overflow values (`beatree/ops/overflow.rs`) — the REAL `chunk`, `encode_cell`, `decode_cell`,
//! `total_needed_pages`, `read_blocking`, `AsyncReader` and `delete`, driven through `nomt::verif_api::overflow` (hook H9)
//! on a scratch leaf-store file under /dev/shm with a real `SyncAllocator` and the real I/O pool.  Every step emits one
//! protocol line for the Lean driver's `overflow` mode and is checked against harness-side oracles that do not depend on
//! the model:
//!   * C01: what `read_blocking` / the `AsyncReader` return is the value that was chunked; the written pages, decoded by
//!     the harness's own reading of the page format, hold the value;
//!   * C19: `chunk` uses exactly the page numbers the allocator hands out (the free list in pop order, then the frontier),
//!     `total_needed_pages` of them, each once; no other page of the file changes; `delete` appends exactly these page
//!     numbers to `freed`;
//!   * C16: cell = `size u64 | hash | pns u32…`, page = `np u16 | nb u16 | pns | bytes`, `decode_cell(encode_cell) = id`.
//! Malformed cells / chains (hand-made pages through `put`) exercise every panic site of the readers.
use crate::util::*;
use nomt::verif_api::overflow as ovf;
use std::collections::BTreeSet;
use std::panic::{catch_unwind, AssertUnwindSafe};

const PAGE: usize = 4096;
const BODY: usize = 4092;

fn list_str(v: &[u32]) -> String {
    if v.is_empty() {
        "-".into()
    } else {
        v.iter().map(|x| x.to_string()).collect::<Vec<_>>().join(".")
    }
}
fn hex_or_dash(b: &[u8]) -> String {
    if b.is_empty() {
        "-".into()
    } else {
        hex(b)
    }
}
fn fnv64(b: &[u8]) -> u64 {
    let mut h: u64 = 0xcbf29ce484222325;
    for x in b {
        h = (h ^ *x as u64).wrapping_mul(0x100000001b3);
    }
    h
}
fn digest(b: &[u8]) -> String {
    format!("{}:{}", b.len(), fnv64(b))
}
fn gen_value(seed: u64, len: usize) -> Vec<u8> {
    let mut s = seed;
    let mut v = Vec::with_capacity(len);
    for _ in 0..len {
        v.push((s >> 33) as u8);
        s = s.wrapping_mul(6364136223846793005).wrapping_add(1442695040888963407);
    }
    v
}

/// the harness's own reading of `total_needed_pages`: the least `t` whose pages hold the value plus the page numbers
/// that do not fit the cell — or one more (the code is allowed either, see `tnp_not_always_least` on the Lean side)
fn window(len: usize, t: usize) -> bool {
    let stream = len + 4 * (t - t.min(15));
    t >= 1 && (t - 1) * BODY < stream && stream <= t * BODY
}

/// an overflow cell by the documented layout (used for the hand-made cells of the malformed cases)
fn mk_cell(size: usize, hash: [u8; 32], pns: &[u32]) -> Vec<u8> {
    let mut c = (size as u64).to_le_bytes().to_vec();
    c.extend_from_slice(&hash);
    for p in pns {
        c.extend_from_slice(&p.to_le_bytes());
    }
    c
}

/// header + page numbers + bytes of a page, by the documented layout
fn parse_page(pg: &[u8]) -> Option<(Vec<u32>, Vec<u8>)> {
    let np = u16::from_le_bytes([pg[0], pg[1]]) as usize;
    let nb = u16::from_le_bytes([pg[2], pg[3]]) as usize;
    if 4 + 4 * np + nb > PAGE {
        return None;
    }
    let pns = (0..np).map(|i| u32::from_le_bytes(pg[4 + 4 * i..8 + 4 * i].try_into().unwrap())).collect();
    Some((pns, pg[4 + 4 * np..4 + 4 * np + nb].to_vec()))
}
fn page_prefix(pg: &[u8]) -> (usize, usize, &[u8]) {
    let np = u16::from_le_bytes([pg[0], pg[1]]) as usize;
    let nb = u16::from_le_bytes([pg[2], pg[3]]) as usize;
    let n = 4 + 4 * np + nb;
    (np, nb, if n <= pg.len() { &pg[..n] } else { pg })
}
fn show_page(full: bool, pn: u32, pg: &[u8]) -> String {
    let (np, nb, pre) = page_prefix(pg);
    let mut s = format!("{pn}:{np}:{nb}:{}", digest(pre));
    if full {
        s.push(':');
        s.push_str(&hex_or_dash(pre));
    }
    s
}

/// value lengths at the boundaries of the code
fn pick_len(r: &mut Rng, out: &mut Sink) -> usize {
    let k = *r.pick(&[1usize, 2, 3, 14, 15, 16, 17, 18, 30, 31, 32, 33]);
    let class = r.below(12);
    let (name, len) = match class {
        0 => ("tiny", *r.pick(&[1usize, 2, 3, 4, 5, 31, 32, 33, 100])),
        1 => ("inline_limit", *r.pick(&[1330usize, 1331, 1332, 1333, 1334, 1335])),
        2 => ("one_page", *r.pick(&[4088usize, 4089, 4090, 4091, 4092, 4093, 4094])),
        3 => ("k_pages", k * BODY),
        4 => ("k_pages_pm", if r.chance(1, 2) { k * BODY + r.range(1, 5) } else { (k * BODY).saturating_sub(r.range(1, 5)).max(1) }),
        // the cell's 15 page numbers are exceeded here; 16·4092−4 is the last length with 16 pages
        5 => ("spill_15_16", (15 * BODY + r.range(0, 12)).saturating_sub(6)),
        6 => ("spill_16_17", 16 * BODY - 12 + r.range(0, 16)),
        7 => ("spill_k", (k.max(16)) * BODY - 4 * (k.max(16) - 15) + r.range(0, 8) - 4),
        8 => ("random_small", r.range(1, 9000)),
        9 => ("random_mid", r.range(9000, 70_000)),
        10 => ("random_big", r.range(70_000, 300 * 1024)),
        _ => ("random_any", r.range(1333, 300 * 1024)),
    };
    out.count(&format!("len_{name}"));
    len.max(1)
}

struct Case<'a> {
    sim: ovf::Sim,
    /// the allocator's sequence: free list in pop order, then the frontier
    free: Vec<u32>,
    bump: u32,
    next_alloc: usize,
    file_pages: u32,
    out: &'a mut Sink,
    tag: String,
}

impl<'a> Case<'a> {
    fn alloc(&self, i: usize) -> u32 {
        if i < self.free.len() {
            self.free[i]
        } else {
            self.bump + (i - self.free.len()) as u32
        }
    }
    fn snapshot(&self) -> Vec<u8> {
        let mut v = Vec::with_capacity(self.file_pages as usize * PAGE);
        for pn in 0..self.file_pages {
            v.extend_from_slice(&self.sim.read_page(pn).expect("read scratch page"));
        }
        v
    }

    /// `chunk <value>`: returns (cell page numbers, all allocated page numbers)
    fn chunk(&mut self, spec: &str, value: &[u8], full: bool) -> Option<(Vec<u32>, Vec<u32>)> {
        let before = if self.file_pages <= 600 { Some(self.snapshot()) } else { None };
        let op = format!("chunk {spec}");
        let res = catch_unwind(AssertUnwindSafe(|| self.sim.chunk(value)));
        self.out.count("op_chunk");
        let (cell, writes) = match res {
            Err(_) => {
                self.out.line(op, "panic".into());
                if !value.is_empty() {
                    self.out.fail(format!("C01 chunk panicked on a value of {} bytes ({})", value.len(), self.tag));
                }
                return None;
            }
            Ok(Err(e)) => {
                self.out.line(op, format!("ioerr {e}"));
                self.out.fail(format!("C01 chunk failed with an I/O error on the scratch file: {e} ({})", self.tag));
                return None;
            }
            Ok(Ok(x)) => x,
        };
        let expected: Vec<u32> = (0..writes).map(|i| self.alloc(self.next_alloc + i)).collect();
        self.next_alloc += writes;
        let brief = format!("len={} {}", value.len(), self.tag);
        // ---- the impl line: the pages as they are in the file now
        let mut shown = Vec::new();
        let mut pages = Vec::new();
        for &pn in &expected {
            let pg = self.sim.read_page(pn).expect("read scratch page");
            shown.push(show_page(full, pn, &pg));
            pages.push(pg);
        }
        self.out.line(op, format!("ok cell={} total={} pages={}", list_str(&cell), writes, shown.join(",")));
        // ---- C19: how many pages, which pages
        if !window(value.len(), writes) {
            self.out.fail(format!("C19 chunk used {writes} pages, which cannot hold the value and its page numbers exactly ({brief})"));
        }
        if writes != ovf::total_needed_pages(value.len()) {
            self.out.fail(format!("C19 chunk wrote {writes} pages but total_needed_pages says {} ({brief})", ovf::total_needed_pages(value.len())));
        }
        if cell[..] != expected[..writes.min(15)] {
            self.out.fail(format!("C19 the cell names pages {:?}, the allocator handed out {:?} ({brief})", cell, &expected[..writes.min(15)]));
        }
        let distinct: BTreeSet<u32> = expected.iter().cloned().collect();
        if distinct.len() != expected.len() {
            self.out.fail(format!("C19 the allocator handed out a page twice ({brief})"));
        }
        // ---- C16 / C01: the pages, read by the documented layout, chain up and hold the value
        let mut known: Vec<u32> = cell.clone();
        let mut bytes: Vec<u8> = Vec::new();
        let mut ok = true;
        for (i, pg) in pages.iter().enumerate() {
            if i >= known.len() {
                self.out.fail(format!("C01 page {i} of the chain is not known after reading {i} pages ({brief})"));
                ok = false;
                break;
            }
            if known[i] != expected[i] {
                self.out.fail(format!("C19 page {i} of the chain is {} but the {i}-th allocation was {} ({brief})", known[i], expected[i]));
                ok = false;
                break;
            }
            match parse_page(pg) {
                None => {
                    self.out.fail(format!("C16 overflow page {} has a header that does not fit the page ({brief})", expected[i]));
                    ok = false;
                    break;
                }
                Some((p, b)) => {
                    if !b.is_empty() && p.len() == 1023 {
                        self.out.fail(format!("C16 overflow page {} holds 1023 page numbers and bytes ({brief})", expected[i]));
                    }
                    known.extend(p);
                    bytes.extend(b);
                }
            }
        }
        if ok {
            if known != expected {
                self.out.fail(format!("C19 the chain names {} pages, {} were allocated ({brief})", known.len(), expected.len()));
            }
            if bytes != value {
                self.out.fail(format!("C01 the written overflow pages do not hold the value ({brief})"));
            }
        }
        // ---- C19: nothing else in the file changed, the file did not grow
        if let Some(before) = before {
            let after = self.snapshot();
            for pn in 0..self.file_pages as usize {
                if !distinct.contains(&(pn as u32)) && before[pn * PAGE..(pn + 1) * PAGE] != after[pn * PAGE..(pn + 1) * PAGE] {
                    self.out.fail(format!("C19 chunk changed page {pn}, which it did not allocate ({brief})"));
                    break;
                }
            }
        }
        if self.sim.file_pages().unwrap_or(0) != self.file_pages as u64 {
            self.out.fail(format!("C19 harness: the scratch file grew ({brief})"));
        }
        Some((cell, expected))
    }

    fn put(&mut self, pn: u32, np: usize, nb: usize, body: &[u8]) {
        let mut pg = vec![0u8; PAGE];
        pg[0..2].copy_from_slice(&(np as u16).to_le_bytes());
        pg[2..4].copy_from_slice(&(nb as u16).to_le_bytes());
        pg[4..4 + body.len()].copy_from_slice(body);
        self.sim.write_page(pn, &pg).expect("write scratch page");
        self.out.line(format!("put {pn} {np} {nb} {}", hex_or_dash(body)), "ok".into());
    }

    /// `read <cell>`; `expect` = the value an honest chain must give
    fn read(&mut self, cell: &[u8], expect: Option<&[u8]>) {
        let op = format!("read {}", hex_or_dash(cell));
        let res = catch_unwind(AssertUnwindSafe(|| self.sim.read_blocking(cell)));
        self.out.count("op_read");
        match res {
            Err(_) => {
                self.out.line(op, "panic".into());
                if expect.is_some() {
                    self.out.fail(format!("C01 read_blocking panicked on an honest chain ({})", self.tag));
                }
            }
            Ok(v) => {
                self.out.line(op, format!("ok {}", digest(&v)));
                if let Some(e) = expect {
                    if v != e {
                        self.out.fail(format!("C01 read_blocking returned {} bytes that are not the {}-byte value ({})", v.len(), e.len(), self.tag));
                    }
                }
            }
        }
    }

    /// `delete <cell> <freed>`; `expect` = the pages an honest chain occupies
    fn delete(&mut self, cell: &[u8], prefix: &[u32], expect: Option<&[u32]>) {
        let op = format!("delete {} {}", hex_or_dash(cell), list_str(prefix));
        let mut freed = prefix.to_vec();
        let res = catch_unwind(AssertUnwindSafe(|| self.sim.delete(cell, &mut freed)));
        self.out.count("op_delete");
        match res {
            Err(_) => {
                self.out.line(op, "panic".into());
                if expect.is_some() {
                    self.out.fail(format!("C19 delete panicked on an honest chain ({})", self.tag));
                }
            }
            Ok(()) => {
                self.out.line(op, format!("ok {}", list_str(&freed)));
                if let Some(e) = expect {
                    if freed.len() < prefix.len() || freed[..prefix.len()] != prefix[..] {
                        self.out.fail(format!("C19 delete disturbed the pages freed before ({})", self.tag));
                    } else if freed[prefix.len()..] != e[..] {
                        let got: BTreeSet<u32> = freed[prefix.len()..].iter().cloned().collect();
                        let want: BTreeSet<u32> = e.iter().cloned().collect();
                        let leaked: Vec<&u32> = want.difference(&got).collect();
                        let wrong: Vec<&u32> = got.difference(&want).collect();
                        self.out.fail(format!("C19 delete freed {} pages, the value occupies {}: leaked {:?}, wrongly freed {:?} ({})", freed.len() - prefix.len(), e.len(), leaked, wrong, self.tag));
                    }
                }
            }
        }
    }

    /// `aread <cell> <schedule>`: the real `AsyncReader` with real reads, completions delivered as the schedule says
    fn aread(&mut self, cell: &[u8], sched: &[Option<usize>], expect: Option<&[u8]>, must_finish: bool) {
        let sched_str = if sched.is_empty() {
            "-".to_string()
        } else {
            sched.iter().map(|a| match a { None => "s".to_string(), Some(j) => format!("c{j}") }).collect::<Vec<_>>().join(",")
        };
        let op = format!("aread {} {}", hex_or_dash(cell), sched_str);
        self.out.count("op_aread");
        let mut evs: Vec<String> = Vec::new();
        let mut got: Option<Vec<u8>> = None;
        let mut max_outstanding = 0usize;
        let sim = &self.sim;
        let res = catch_unwind(AssertUnwindSafe(|| {
            let mut ar = sim.async_reader(cell);
            // outstanding requests: (index, page number, ticket)
            let mut outst: Vec<(usize, u32, u64)> = Vec::new();
            for a in sched {
                match a {
                    None => match ar.submit() {
                        None => evs.push("N".into()),
                        Some((i, pn, t)) => {
                            evs.push(format!("S{i}:{pn}"));
                            outst.push((i, pn, t));
                            max_outstanding = max_outstanding.max(outst.len());
                        }
                    },
                    Some(j) => {
                        if outst.is_empty() {
                            evs.push("I".into());
                            continue;
                        }
                        let (i, pn, t) = outst[j % outst.len()];
                        outst.retain(|e| e.0 != i);
                        match ar.complete(i, t) {
                            Err(_) => evs.push(format!("E{pn}")),
                            Ok(None) => evs.push(format!("P{i}")),
                            Ok(Some(v)) => {
                                evs.push(format!("V{i}:{}", digest(&v)));
                                got = Some(v);
                                // the remaining requests are drained when the reader is dropped
                                break;
                            }
                        }
                    }
                }
            }
        }));
        if res.is_err() {
            evs.push("panic".into());
            if expect.is_some() {
                self.out.fail(format!("C01 the AsyncReader panicked on an honest chain under schedule {} ({})", &sched_str[..sched_str.len().min(120)], self.tag));
            }
        }
        self.out.line(op, if evs.is_empty() { "-".into() } else { evs.join(" ") });
        self.out.add("aread_max_outstanding", max_outstanding as u64);
        if let Some(e) = expect {
            match &got {
                Some(v) if v[..] != e[..] => self.out.fail(format!("C01 the AsyncReader returned {} bytes that are not the {}-byte value ({})", v.len(), e.len(), self.tag)),
                None if must_finish && res.is_ok() => self.out.fail(format!("C01 the AsyncReader did not finish under a draining schedule ({})", self.tag)),
                _ => {}
            }
        }
    }
}

fn schedule(r: &mut Rng, total: usize, kind: usize) -> Vec<Option<usize>> {
    let mut s: Vec<Option<usize>> = Vec::new();
    match kind {
        // what `AsyncLookup` + the rollback worker do: submit as many as allowed, then complete the oldest, resubmit
        0 => {
            let burst = *r.pick(&[1usize, 2, 3, 16, 17, 40]);
            for _ in 0..total + 2 {
                for _ in 0..burst {
                    s.push(None);
                }
                s.push(Some(0));
            }
        }
        // completions in reverse order of submission
        1 => {
            for _ in 0..total + 2 {
                for _ in 0..r.range(1, 20) {
                    s.push(None);
                }
                for _ in 0..r.range(1, 20) {
                    s.push(Some(usize::MAX / 2));
                }
            }
        }
        // random interleaving
        _ => {
            for _ in 0..3 * total + 6 {
                if r.chance(1, 2) {
                    s.push(None);
                } else {
                    s.push(Some(r.below(64)));
                }
            }
        }
    }
    // drain: one submit, one completion of the oldest — must end with the value
    for _ in 0..2 * total + 4 {
        s.push(None);
        s.push(Some(0));
    }
    s
}

fn arithmetic_lines(r: &mut Rng, out: &mut Sink) {
    for _ in 0..6 {
        let len = match r.below(8) {
            0 => r.range(0, 5),
            1 => *r.pick(&[15usize, 16, 17, 1037, 1038, 1039, 2060, 131_000]) * BODY + r.range(0, 9) - 4,
            2 => 4_243_403 + r.range(0, 3) - 1,
            3 => (1 << 29) - r.below(3),
            4 => r.range(1, 1 << 29),
            5 => r.range(4_000_000, 9_000_000),
            _ => r.range(1, 400_000),
        };
        let res = catch_unwind(|| (ovf::needed_pages(len), ovf::total_needed_pages(len)));
        out.count("op_tnp");
        match res {
            Err(_) => {
                out.line(format!("tnp {len}"), "panic".into());
                out.fail(format!("C19 total_needed_pages({len}) panicked (arithmetic overflow)"));
            }
            Ok((np, t)) => {
                out.line(format!("tnp {len}"), format!("{np} {t}"));
                if len > 0 && !window(len, t) {
                    out.fail(format!("C19 total_needed_pages({len}) = {t}: that many pages cannot hold the value and its page numbers exactly"));
                }
                if len > 0 && t >= 2 && window(len, t - 1) {
                    out.count("tnp_not_least");
                }
            }
        }
    }
    for _ in 0..2 {
        let len = *r.pick(&[0usize, 1, 1331, 1332, 1333, 1334, 4092, 70_000]);
        let ov = ovf::insert_is_overflow(len);
        out.count("op_cls");
        out.line(format!("cls {len}"), if ov { "overflow".into() } else { "inline".into() });
        if ov != (len > ovf::MAX_LEAF_VALUE_SIZE) {
            out.fail(format!("C01 a value of {len} bytes is classified {} but MAX_LEAF_VALUE_SIZE is {}", if ov { "overflow" } else { "inline" }, ovf::MAX_LEAF_VALUE_SIZE));
        }
        if !ov && ovf::body_size(1, len) > ovf::LEAF_NODE_BODY_SIZE {
            out.fail(format!("C01 an inline value of {len} bytes does not fit a leaf"));
        }
    }
}

fn cell_lines(r: &mut Rng, out: &mut Sink) {
    // encode
    let vs = match r.below(6) {
        0 => (1usize << 29) + r.below(2),
        1 => (1usize << 29) - r.below(2),
        2 => r.below(3),
        _ => r.range(1333, 1 << 29),
    };
    let hash = r.bytes32();
    let n = *r.pick(&[0usize, 1, 1, 2, 14, 15, 15, 16, 20]);
    let pns: Vec<u32> = (0..n).map(|_| if r.chance(1, 8) { u32::MAX - r.below(3) as u32 } else { r.next() as u32 }).collect();
    let op = format!("cell {vs} {} {}", hex(&hash), list_str(&pns));
    let res = catch_unwind(|| ovf::encode_cell(vs, hash, &pns));
    out.count("op_cell");
    let cell = match res {
        Err(_) => {
            out.line(op, "panic".into());
            if vs <= ovf::MAX_OVERFLOW_VALUE_SIZE {
                out.fail(format!("C16 encode_cell panicked on an admissible size {vs}"));
            }
            None
        }
        Ok(c) => {
            out.line(op, format!("ok {}", hex(&c)));
            let mut want = (vs as u64).to_le_bytes().to_vec();
            want.extend_from_slice(&hash);
            for p in &pns {
                want.extend_from_slice(&p.to_le_bytes());
            }
            if c != want {
                out.fail(format!("C16 encode_cell({vs}, …, {n} pages) is not size ‖ hash ‖ page numbers"));
            }
            Some(c)
        }
    };
    // decode: the cell itself and mutants
    let mut raws: Vec<(&str, Vec<u8>)> = Vec::new();
    if let Some(c) = &cell {
        raws.push(("honest", c.clone()));
        let mut t = c.clone();
        t.truncate(t.len().saturating_sub(r.range(1, 5)));
        raws.push(("truncated", t));
        let mut t = c.clone();
        t.extend(std::iter::repeat(7u8).take(r.range(1, 7)));
        raws.push(("extended", t));
        let mut t = c.clone();
        t[3] = 0x20 + r.below(2) as u8; // size ≥ 2^29
        t[0] = r.below(2) as u8;
        t[1] = 0;
        t[2] = 0;
        raws.push(("size_limit", t));
        let mut t = c.clone();
        t[7] = 1; // size ≥ 2^56
        raws.push(("size_huge", t));
    }
    let l = *r.pick(&[0usize, 3, 40, 43, 44, 45, 47, 48, 100, 104]);
    raws.push(("random", (0..l).map(|_| r.next() as u8).collect()));
    for (kind, raw) in raws {
        let op = format!("dcell {}", hex_or_dash(&raw));
        let res = catch_unwind(|| ovf::decode_cell(&raw));
        out.count(&format!("dcell_{kind}"));
        match res {
            Err(_) => {
                out.line(op, "panic".into());
                let size_ok = raw.len() >= 8 && u64::from_le_bytes(raw[0..8].try_into().unwrap()) <= 1 << 29;
                if raw.len() >= 44 && raw.len() % 4 == 0 && size_ok {
                    out.fail(format!("C16 decode_cell panicked on a well-formed {}-byte cell ({kind})", raw.len()));
                }
            }
            Ok((s, h, p)) => {
                out.line(op, format!("ok {s} {} {}", hex(&h), list_str(&p)));
                if kind == "honest" && (s != vs || h != hash || p != pns) {
                    out.fail(format!("C16 decode_cell(encode_cell(x)) != x for size {vs}, {n} pages"));
                }
                // whatever it accepts re-encodes to the same bytes
                if let Ok(back) = catch_unwind(|| ovf::encode_cell(s, h, &p)) {
                    if back != raw {
                        out.fail(format!("C16 encode_cell(decode_cell(raw)) != raw for a {}-byte cell ({kind})", raw.len()));
                    }
                }
            }
        }
    }
}

pub fn run(seed: u64, cases: usize, out: &mut Sink) {
    let dir = format!("/dev/shm/nomt-verif-ovf-{}-{}", std::process::id(), seed);
    let _ = std::fs::remove_dir_all(&dir);
    std::fs::create_dir_all(&dir).expect("scratch dir");
    let env = ovf::Env::new(2);
    let mut rng = Rng::new(seed ^ 0x0F10);
    for case in 0..cases {
        let mut r = rng.fork();
        out.mark_case(format!("case {case}"));
        arithmetic_lines(&mut r, out);
        cell_lines(&mut r, out);
        // ---- a scratch store: a free list of non-contiguous, descending page numbers, then the frontier
        let big = case % 40 == 39;
        let nfree = if big { 0 } else { *r.pick(&[0usize, 0, 1, 3, 14, 15, 16, 17, 40, 100, 200]) };
        let mut free: Vec<u32> = Vec::new();
        let mut p = 2 + nfree as u32 * 5 + r.range(0, 20) as u32;
        for _ in 0..nfree {
            free.push(p);
            p -= r.range(1, 4) as u32;
        }
        if r.chance(1, 4) {
            // not monotone either
            for i in (1..free.len()).rev() {
                let j = r.below(i + 1);
                free.swap(i, j);
            }
        }
        let bump = free.iter().cloned().max().unwrap_or(1) + 1 + r.range(0, 9) as u32;
        let nvalues = if big { 1 } else { r.range(1, 3) };
        let lens: Vec<usize> = (0..nvalues)
            .map(|_| {
                if big {
                    out.count("len_huge");
                    *r.pick(&[4_243_403usize, 4_243_404, 1038 * BODY - 4 * 1023, 1038 * BODY - 4 * 1023 + 1, 1037 * BODY + 100, 4_300_000])
                } else {
                    pick_len(&mut r, out)
                }
            })
            .collect();
        let need: usize = lens.iter().map(|l| l / 4088 + 2).sum();
        let file_pages = bump + need as u32 + r.range(2, 30) as u32;
        let path = std::path::PathBuf::from(format!("{dir}/ln-{case}"));
        let sim = ovf::Sim::new(&env, &path, file_pages, bump, 1, &free).expect("scratch store");
        out.line(format!("reset {file_pages} {bump} {}", list_str(&free)), "ok".into());
        let mut c = Case { sim, free: free.clone(), bump, next_alloc: 0, file_pages, out, tag: format!("seed {seed} case {case}") };
        let mut stored: Vec<(Vec<u8>, Vec<u8>, Vec<u32>)> = Vec::new(); // (value, cell, pages)
        for (vi, &len) in lens.iter().enumerate() {
            let full = len <= 600 && r.chance(1, 2);
            let vseed = r.next() >> 1;
            let (spec, value) = if full {
                let v: Vec<u8> = (0..len).map(|_| r.next() as u8).collect();
                (format!("h:{}", hex(&v)), v)
            } else {
                (format!("g:{vseed}:{len}"), gen_value(vseed, len))
            };
            c.tag = format!("seed {seed} case {case} value {vi} len {len} free {nfree}");
            let Some((cell_pns, pages)) = c.chunk(&spec, &value, full) else { continue };
            let total = pages.len();
            c.out.count(if total > 15 { "chunk_spills" } else { "chunk_in_cell" });
            if total >= 1038 {
                c.out.count("chunk_pointer_only_page");
            }
            c.out.nontrivial(&format!("chunk {len} {total} {nfree}"));
            // ---- the cell, as leaf_stage builds it
            let hash = r.bytes32();
            let cell_op = format!("cell {len} {} {}", hex(&hash), list_str(&cell_pns));
            let cell = match catch_unwind(|| ovf::encode_cell(len, hash, &cell_pns)) {
                Ok(cell) => cell,
                Err(_) => {
                    c.out.line(cell_op, "panic".into());
                    c.out.fail(format!("C16 encode_cell panicked on the result of chunk ({})", c.tag));
                    continue;
                }
            };
            c.out.line(cell_op, format!("ok {}", hex(&cell)));
            if cell != mk_cell(len, hash, &cell_pns) {
                c.out.fail(format!("C16 encode_cell of the result of chunk is not size ‖ hash ‖ page numbers ({})", c.tag));
            }
            if !big {
                c.read(&cell, Some(&value));
                for kind in 0..3 {
                    if kind == 0 || r.chance(1, 2) {
                        let s = schedule(&mut r, total, kind);
                        c.out.count(&format!("sched_{kind}"));
                        c.aread(&cell, &s, Some(&value), true);
                    }
                }
                // a short schedule that may stop anywhere
                let n = r.range(0, 2 * total + 2);
                let s: Vec<Option<usize>> = (0..n).map(|_| if r.chance(1, 2) { None } else { Some(r.below(8)) }).collect();
                c.aread(&cell, &s, Some(&value), false);
            } else {
                // too long for the model's list-based reader: the oracle alone
                let s = schedule(&mut r, total, 0);
                let sim = &c.sim;
                let res = catch_unwind(AssertUnwindSafe(|| {
                    let v = sim.read_blocking(&cell);
                    let mut ar = sim.async_reader(&cell);
                    let mut outst: Vec<(usize, u32, u64)> = Vec::new();
                    let mut got = None;
                    for a in &s {
                        match a {
                            None => {
                                if let Some(x) = ar.submit() {
                                    outst.push(x)
                                }
                            }
                            Some(_) => {
                                if outst.is_empty() {
                                    continue;
                                }
                                let (i, _, t) = outst.remove(0);
                                if let Ok(Some(v)) = ar.complete(i, t) {
                                    got = Some(v);
                                    break;
                                }
                            }
                        }
                    }
                    (v, got)
                }));
                match res {
                    Err(_) => c.out.fail(format!("C01 a reader panicked on an honest chain ({})", c.tag)),
                    Ok((v, got)) => {
                        if v != value {
                            c.out.fail(format!("C01 read_blocking returned a wrong value ({})", c.tag));
                        }
                        if got.as_deref() != Some(&value[..]) {
                            c.out.fail(format!("C01 the AsyncReader did not return the value ({})", c.tag));
                        }
                    }
                }
            }
            let prefix: Vec<u32> = (0..r.below(4)).map(|_| 900_000 + r.below(50) as u32).collect();
            c.delete(&cell, &prefix, Some(&pages));
            stored.push((value, cell, pages));
        }
        // ---- earlier values are still intact after the later ones were written
        if stored.len() > 1 {
            let (v, cell, pages) = stored[0].clone();
            c.tag = format!("seed {seed} case {case} re-read of value 0");
            c.read(&cell, Some(&v));
            c.delete(&cell, &[], Some(&pages));
        }
        // ---- malformed cells and chains
        if let Some((value, cell, pages)) = stored.last().cloned() {
            if !big {
                malformed(&mut c, &mut r, &value, &cell, &pages);
            }
        }
        drop(c);
        let _ = std::fs::remove_file(&path);
    }
    let _ = std::fs::remove_dir_all(&dir);
}

/// corrupt one thing, then run the three consumers under `catch_unwind`: the model must predict ok / panic and the
/// result; afterwards the page is repaired
fn malformed(c: &mut Case, r: &mut Rng, value: &[u8], cell: &[u8], pages: &[u32]) {
    let total = pages.len();
    let len = value.len();
    let in_file = |pns: &[u32], fp: u32| pns.iter().all(|p| *p < fp);
    let kind = r.below(10);
    let names = ["cell_size_up", "cell_size_down", "cell_fewer_pages", "cell_more_pages", "page_np_too_big", "page_nb_too_big", "page_fewer_pointers", "page_zero", "page_pointer_outside", "page_short_bytes"];
    c.out.count(&format!("malformed_{}", names[kind]));
    c.tag = format!("{} malformed {}", c.tag, names[kind]);
    // the harness's own reading of the cell (not the code under test)
    let hash: [u8; 32] = cell[8..40].try_into().unwrap();
    let cell_pns: Vec<u32> = cell[40..].chunks(4).map(|c| u32::from_le_bytes(c.try_into().unwrap())).collect();
    let mut bad_cell = cell.to_vec();
    let mut repair: Option<(u32, Vec<u8>)> = None;
    let mut all_in_file = true;
    match kind {
        0 => bad_cell = mk_cell(len + *r.pick(&[1usize, 4092, 70_000]), hash, &cell_pns),
        1 => bad_cell = mk_cell(len.saturating_sub(*r.pick(&[1usize, 2, 4092])).max(1), hash, &cell_pns),
        2 => {
            if cell_pns.len() < 2 {
                return;
            }
            bad_cell = mk_cell(len, hash, &cell_pns[..cell_pns.len() - 1])
        }
        3 => {
            let mut p = cell_pns.clone();
            p.push(pages[0]);
            bad_cell = mk_cell(len, hash, &p)
        }
        _ => {
            // a page of the chain: the first (pointers, if any) or a random one
            let idx = if r.chance(1, 2) { 0 } else { r.below(total) };
            let pn = pages[idx];
            let orig = c.sim.read_page(pn).expect("read scratch page");
            let (np, nb, _) = page_prefix(&orig);
            if 4 + 4 * np + nb > PAGE {
                // the page is already broken (reported by the chunk oracle)
                return;
            }
            repair = Some((pn, orig.clone()));
            let body = &orig[4..];
            match kind {
                4 => c.put(pn, *r.pick(&[1024usize, 1025, 5000, 65535]), nb, &body[..64]),
                5 => c.put(pn, np, (BODY - 4 * np) + r.range(1, 9), &body[..(4 * np).min(BODY)]),
                6 => {
                    if np == 0 {
                        c.put(pn, 0, nb.saturating_sub(1), &body[..nb.saturating_sub(1)])
                    } else {
                        c.put(pn, np - 1, nb, &body[..4 * (np - 1)])
                    }
                }
                7 => c.put(pn, 0, 0, &[]),
                8 => {
                    let target = if r.chance(1, 2) { c.file_pages + r.below(3) as u32 } else { u32::MAX - r.below(2) as u32 };
                    let mut b = body[..4 * np + nb].to_vec();
                    if np > 0 {
                        b[0..4].copy_from_slice(&target.to_le_bytes());
                        all_in_file = false;
                        c.put(pn, np, nb, &b)
                    } else {
                        // no pointer to redirect: name a page outside the file in the cell instead
                        let mut p = cell_pns.clone();
                        let k = r.below(p.len());
                        p[k] = target;
                        all_in_file = in_file(&p, c.file_pages);
                        bad_cell = mk_cell(len, hash, &p);
                        repair = None;
                    }
                }
                _ => c.put(pn, np, nb.saturating_sub(r.range(1, 3)), &body[..4 * np + nb.saturating_sub(3)]),
            }
        }
    }
    c.read(&bad_cell, None);
    c.delete(&bad_cell, &[5], None);
    if all_in_file {
        // (an asynchronous read past the end of the file is reported as a success with an undefined page:
        //  not a case the model describes)
        let k = r.below(3);
        let s = schedule(r, total.min(40), k);
        c.aread(&bad_cell, &s, None, false);
    }
    if let Some((pn, orig)) = repair {
        c.sim.write_page(pn, &orig).expect("write scratch page");
        let (np, nb, pre) = page_prefix(&orig);
        let body = pre[4..].to_vec();
        c.out.line(format!("put {pn} {np} {nb} {}", hex_or_dash(&body)), "ok".into());
        // the honest chain works again
        c.read(cell, Some(value));
    }
}
