//! C16 / C01: the bit operations of the B-tree (`nomt/src/beatree/ops/bit_ops.rs`: `separate`, `prefix_len`,
//! `separator_len`, `reconstruct_key`, `first_chunk_mask`, `last_chunk_mask`, `bitwise_memcpy`) driven directly
//! through `nomt::verif_api::bit_ops` (cfg nomt_verif) on generated inputs aimed at the 64-bit chunk boundaries.
//! Every call emits one protocol line for the Lean driver's `bitops` mode (the mirror in `Store/BitOps*.lean`)
//! and is checked against harness-side oracles that do not depend on the model: naive bit-by-bit implementations
//! and the properties themselves (separator strictly above `a`, not above `b`, shortest such prefix of `b`;
//! copied range equals the source range, every other destination bit unchanged).
//!
//! Lines (numbers decimal, bytes lowercase hex, `-` = empty byte string):
//!   fcm <bit_start>                                   -> <u64 as 16 hex digits> | panic
//!   lcm <bit_start> <bit_len> <n_chunks>              -> <u64 as 16 hex digits> | panic
//!   plen <a> <b>                                      -> <decimal>
//!   slen <k>                                          -> <decimal>
//!   sep <a> <b>                                       -> <key> | panic
//!   rk <prefix bytes|N> <prefix_bit_len> <sep bytes> <sep_bit_start> <sep_bit_len>   -> <key> | panic
//!   mc <dst> <dst_bit_start> <src> <src_bit_start> <bit_len>                         -> <dst after> | panic
//! Command `bitops-node` (same driver mode): the real `BranchNodeBuilder` (`new` / `push` / `push_chunk`, fast path and
//! `copy_and_shift_separators`) and `get_key` through `nomt::verif_api::branch_node`, on pages with random initial contents
//! (the page pool hands out undefined pages): base nodes built by `push`, new nodes taking a chunk of the base's compressed
//! separators under the same / a shorter / a longer prefix, with pushes before and after, plus malformed requests; oracle: every
//! key read back by the real `get_key` is the key pushed, every node pointer the one given.
//!   gk <page> <index>                                                                -> <key> | panic
//!   bn <initial page> <n> <prefix_compressed> <prefix_len> <base page|-> <steps>     -> <page after> | panic
//!      steps: `P:<key>:<separator_len>:<pn>` | `C:<from>:<to>:<i>=<pn>,…|-`, separated by `;`
use crate::util::*;
use nomt::verif_api::bit_ops as real;
use std::panic::{catch_unwind, AssertUnwindSafe};

fn hx(b: &[u8]) -> String {
    if b.is_empty() {
        "-".into()
    } else {
        hex(b)
    }
}

fn gbit(b: &[u8], i: usize) -> bool {
    (b[i / 8] >> (7 - i % 8)) & 1 == 1
}
fn sbit(b: &mut [u8], i: usize, v: bool) {
    if v {
        b[i / 8] |= 1 << (7 - i % 8);
    } else {
        b[i / 8] &= !(1 << (7 - i % 8));
    }
}

// ------------------------------------------------------------------------------------------------
// naive references

fn naive_prefix_len(a: &Key, b: &Key) -> usize {
    (0..256).take_while(|&i| gbit(a, i) == gbit(b, i)).count()
}
fn naive_separator_len(k: &Key) -> usize {
    match (0..256).rev().find(|&i| gbit(k, i)) {
        None => 1,
        Some(i) => i + 1,
    }
}
/// the first `n` bits of `b`, zero padded
fn prefix_padded(b: &Key, n: usize) -> Key {
    let mut k = [0u8; 32];
    for i in 0..n.min(256) {
        sbit(&mut k, i, gbit(b, i));
    }
    k
}
fn naive_memcpy(dst: &[u8], dbs: usize, src: &[u8], sbs: usize, len: usize) -> Vec<u8> {
    let mut out = dst.to_vec();
    for i in 0..len {
        sbit(&mut out, dbs + i, gbit(src, sbs + i));
    }
    out
}

// ------------------------------------------------------------------------------------------------
// generators

fn fill(r: &mut Rng, n: usize) -> Vec<u8> {
    let style = r.below(8);
    (0..n)
        .map(|i| match style {
            0 => 0u8,
            1 => 0xff,
            2 => 0xaa,
            3 => 0x55,
            4 => {
                if i % 8 == 7 {
                    0xff
                } else {
                    0
                }
            }
            5 => {
                if i % 8 == 0 {
                    0xff
                } else {
                    0
                }
            }
            _ => r.next() as u8,
        })
        .collect()
}

/// bit lengths around byte / 64-bit chunk boundaries
fn edge_len(r: &mut Rng, max: usize) -> usize {
    let v = match r.below(6) {
        0 => *r.pick(&[0usize, 1, 2, 7, 8, 9, 15, 16, 17]),
        1 => 64 * r.range(1, 5) + r.below(19) - 9,
        2 => 8 * r.range(1, 40) + r.below(3) - 1,
        3 => r.below(80),
        4 => 64 * r.range(1, 9) - r.below(8),
        _ => r.below(max + 1),
    };
    v.min(max)
}

fn key_pair(r: &mut Rng) -> (Key, Key, &'static str) {
    let a = match r.below(6) {
        0 => [0u8; 32],
        1 => [0xffu8; 32],
        2 => {
            // many trailing zero bytes
            let mut k = [0u8; 32];
            let n = r.range(0, 31);
            for i in 0..=n {
                k[i] = r.next() as u8;
            }
            k
        }
        _ => r.bytes32(),
    };
    match r.below(10) {
        0 => (a, a, "equal"),
        1 => (a, r.bytes32(), "random"),
        2 => {
            // shares exactly d bits, d around chunk boundaries
            let d = *r.pick(&[0usize, 1, 7, 8, 9, 55, 56, 57, 62, 63, 64, 65, 71, 72, 127, 128, 129, 191, 192, 193, 247, 248, 254, 255]);
            (a, diverge_at(r, &a, d), "diverge-edge")
        }
        3 => {
            // b = a with the divergence bit set and zeros behind (shortest possible separator is b itself)
            let d = r.below(256);
            let mut b = prefix_padded(&a, d);
            sbit(&mut b, d, true);
            (a, b, "boundary-key")
        }
        4 => {
            // neighbours: b = a + 1 (as numbers) where possible
            let mut b = a;
            for i in (0..32).rev() {
                b[i] = b[i].wrapping_add(1);
                if b[i] != 0 {
                    break;
                }
            }
            (a, b, "successor")
        }
        _ => {
            let d = r.below(256);
            (a, diverge_at(r, &a, d), "diverge")
        }
    }
}

// ------------------------------------------------------------------------------------------------

fn masks(r: &mut Rng, out: &mut Sink) {
    let bs = if r.chance(9, 10) { r.below(8) } else { *r.pick(&[8usize, 9, 63, 64, 65, 200]) };
    let got = catch_unwind(|| real::first_chunk_mask(bs));
    out.line(format!("fcm {bs}"), got.map(|m| format!("{m:016x}")).unwrap_or("panic".into()));
    out.count("fcm");
    // last_chunk_mask
    let n = if r.chance(1, 12) { 0 } else { r.range(1, 6) };
    let bs = if r.chance(9, 10) { r.below(8) } else { r.below(70) };
    let len = match r.below(5) {
        0 => ((n.max(1) - 1) * 64).saturating_sub(bs) + r.below(4),
        1 => (n * 64).saturating_sub(bs).saturating_sub(r.below(4)),
        2 => n * 64 + r.below(9),
        3 => (1usize << 32) + r.below(3) + (n.max(1) - 1) * 64 - bs.min(32),
        _ => r.below(n * 64 + 10),
    };
    let got = catch_unwind(|| real::last_chunk_mask(bs, len, n));
    if let Ok(m) = got {
        // oracle (C16): under n ≥ 1 and fewer than 2^32 used bits the mask is exactly the first `used` bits (saturating at 64)
        if n >= 1 {
            let used = (bs + len).saturating_sub((n - 1) * 64);
            if used < (1usize << 32) {
                let exp: u64 = if used == 0 { 0 } else if used >= 64 { u64::MAX } else { !((1u64 << (64 - used)) - 1) };
                if exp != m {
                    out.fail(format!("C16 last_chunk_mask({bs},{len},{n}) = {m:016x}, expected the first {used} bits"));
                }
            }
        }
    }
    out.line(format!("lcm {bs} {len} {n}"), got.map(|m| format!("{m:016x}")).unwrap_or("panic".into()));
    out.count("lcm");
}

fn keys(r: &mut Rng, out: &mut Sink) {
    let (a, b, kind) = key_pair(r);
    out.count(&format!("keys_{kind}"));
    // prefix_len
    let pl = real::prefix_len(&a, &b);
    out.line(format!("plen {} {}", hex(&a), hex(&b)), pl.to_string());
    if pl != naive_prefix_len(&a, &b) {
        out.fail(format!("C16 prefix_len({}, {}) = {pl}, naive {}", hex(&a), hex(&b), naive_prefix_len(&a, &b)));
    }
    out.count(&format!("plen_word{}", (pl / 64).min(4)));
    // separator_len
    for k in [&a, &b] {
        let sl = real::separator_len(k);
        out.line(format!("slen {}", hex(k)), sl.to_string());
        if sl != naive_separator_len(k) {
            out.fail(format!("C16 separator_len({}) = {sl}, naive {}", hex(k), naive_separator_len(k)));
        }
        // a key is its first `separator_len` bits, zero padded
        if prefix_padded(k, sl) != *k {
            out.fail(format!("C16 separator_len({}) = {sl} cuts off a set bit", hex(k)));
        }
    }
    // separate, in the given order and (outside the contract) in the other
    for (lo, hi) in [(&a, &b), (&b, &a)] {
        let got = catch_unwind(|| real::separate(lo, hi));
        let line = format!("sep {} {}", hex(lo), hex(hi));
        out.nontrivial(&line);
        match got {
            Err(_) => {
                out.line(line, "panic".into());
                out.count("sep_panic");
                if lo < hi {
                    out.fail(format!("C16 separate({}, {}) panicked although a < b", hex(lo), hex(hi)));
                }
            }
            Ok(s) => {
                out.line(line, hex(&s));
                if lo < hi {
                    out.count("sep_ordered");
                    let sl = naive_separator_len(&s).max(1);
                    // a < s ≤ b, s is a zero-padded prefix of b, and no shorter prefix of b is above a
                    if !(lo < &s) {
                        out.fail(format!("C16 separate({}, {}) = {} is not above a", hex(lo), hex(hi), hex(&s)));
                    }
                    if !(&s <= hi) {
                        out.fail(format!("C16 separate({}, {}) = {} is above b", hex(lo), hex(hi), hex(&s)));
                    }
                    let d = naive_prefix_len(lo, hi);
                    if s != prefix_padded(hi, d + 1) {
                        out.fail(format!("C16 separate({}, {}) = {} is not the first {} bits of b", hex(lo), hex(hi), hex(&s), d + 1));
                    }
                    for n in 0..sl.min(d + 1) {
                        if n < d + 1 && &prefix_padded(hi, n) > lo {
                            out.fail(format!("C16 separate({}, {}): the shorter prefix of {n} bits already separates", hex(lo), hex(hi)));
                        }
                    }
                } else {
                    out.count("sep_unordered");
                }
            }
        }
    }
}

/// what `BranchNodeView::raw_separators_data` computes for a separator at bits `[start, start+len)` of a bit string
fn raw_sep(body: &[u8], start: usize, len: usize) -> Option<(Vec<u8>, usize, usize)> {
    let bit_start = start % 8;
    let byte_len = if len == 0 { 0 } else { ((bit_start + len + 7) / 8).next_multiple_of(8) };
    let s = start / 8;
    if s + byte_len > body.len() {
        return None;
    }
    Some((body[s..s + byte_len].to_vec(), bit_start, len))
}

fn reconstruct(r: &mut Rng, out: &mut Sink) {
    // a node body: prefix bits ++ separators, as the branch node stores them
    let valid = r.chance(4, 5);
    let pbl = if r.chance(1, 4) { 0 } else { edge_len(r, 256) };
    let use_prefix = pbl > 0 || r.chance(1, 2);
    let mut body = fill(r, 96);
    if r.chance(1, 3) {
        for b in body.iter_mut() {
            *b = r.next() as u8;
        }
    }
    let slen = edge_len(r, 256 - pbl);
    let off = pbl + if r.chance(1, 3) { 0 } else { r.below(200) };
    let (mut sep, mut sbs, mut sl) = raw_sep(&body, off, slen).unwrap();
    let mut pbytes = body[..(pbl + 7) / 8].to_vec();
    let mut pbl2 = pbl;
    let mut kind = "valid";
    if !valid {
        match r.below(8) {
            0 => {
                sl = 256 - pbl + r.range(1, 9);
                let (s2, b2, l2) = raw_sep(&body, off, sl).unwrap();
                sep = s2;
                sbs = b2;
                sl = l2;
                kind = "too-long";
            }
            1 => {
                if !pbytes.is_empty() {
                    pbytes.pop();
                }
                kind = "short-prefix-bytes";
            }
            2 => {
                pbl2 = 256 + r.range(1, 20);
                pbytes = body[..(pbl2 + 7) / 8].to_vec();
                kind = "prefix>256";
            }
            3 => {
                sep.extend_from_slice(&fill(r, 8));
                kind = "source+8";
            }
            4 => {
                if sep.len() >= 8 {
                    sep.truncate(sep.len() - 8);
                }
                kind = "source-8";
            }
            5 => {
                sbs = 8 + r.below(3);
                kind = "bitstart>7";
            }
            6 => {
                let n = r.range(1, 7);
                sep.extend_from_slice(&fill(r, n));
                kind = "source+odd";
            }
            _ => {
                pbytes.extend_from_slice(&fill(r, 3));
                kind = "long-prefix-bytes";
            }
        }
    }
    let pfx: Option<(&[u8], usize)> = if use_prefix { Some((&pbytes[..], pbl2)) } else { None };
    let got = catch_unwind(AssertUnwindSafe(|| real::reconstruct_key(pfx, (&sep[..], sbs, sl))));
    let line = format!(
        "rk {} {} {} {} {}",
        if use_prefix { hx(&pbytes) } else { "N".into() },
        if use_prefix { pbl2 } else { 0 },
        hx(&sep),
        sbs,
        sl
    );
    out.nontrivial(&line);
    out.count(&format!("rk_{kind}"));
    match got {
        Err(_) => {
            out.line(line.clone(), "panic".into());
            out.count("rk_panic");
            if kind == "valid" || kind == "long-prefix-bytes" {
                out.fail(format!("C16 reconstruct_key panicked inside its contract: {line}"));
            }
        }
        Ok(k) => {
            out.line(line.clone(), hex(&k));
            if kind == "valid" || kind == "long-prefix-bytes" {
                // oracle: prefix bits ++ separator bits, zero padded
                let mut exp = [0u8; 32];
                let eff_pbl = if use_prefix { pbl2 } else { 0 };
                for i in 0..eff_pbl {
                    sbit(&mut exp, i, gbit(&pbytes, i));
                }
                for i in 0..sl {
                    sbit(&mut exp, eff_pbl + i, gbit(&sep, sbs + i));
                }
                if exp != k {
                    out.fail(format!("C16 reconstruct_key returned {} instead of prefix ++ separator = {}: {line}", hex(&k), hex(&exp)));
                }
                let sh = if sbs == eff_pbl % 8 { "none" } else if sbs > eff_pbl % 8 { "left" } else { "right" };
                out.count(&format!("rk_shift_{sh}"));
            }
        }
    }
}

fn memcpy(r: &mut Rng, out: &mut Sink) {
    let valid = r.chance(4, 5);
    let sbs = r.below(8);
    let dbs = match r.below(4) {
        0 => sbs,
        _ => r.below(8),
    };
    let len = if r.chance(1, 25) { 0 } else { edge_len(r, 640).max(1) };
    let chunks = (sbs + len + 63) / 64;
    let btw = (dbs + len + 7) / 8;
    let mut slen_bytes = if len == 0 { 8 * r.below(3) } else { 8 * chunks };
    let mut dlen = btw + *r.pick(&[0usize, 0, 0, 0, 1, 2, 7, 8, 9, 16]);
    let (mut sbs2, mut dbs2) = (sbs, dbs);
    let mut kind = "valid";
    if !valid {
        match r.below(8) {
            0 => {
                slen_bytes += 8 * r.range(1, 2);
                kind = "source+chunk";
            }
            1 => {
                slen_bytes = slen_bytes.saturating_sub(8);
                kind = "source-chunk";
            }
            2 => {
                slen_bytes += r.range(1, 7);
                kind = "source+odd";
            }
            3 => {
                dlen = btw.saturating_sub(1);
                kind = "dest-1";
            }
            4 => {
                dlen = btw.saturating_sub(r.range(2, 10));
                kind = "dest-many";
            }
            5 => {
                sbs2 = 8 + r.below(60);
                kind = "srcstart>7";
            }
            6 => {
                dbs2 = 8 + r.below(60);
                kind = "dststart>7";
            }
            _ => {
                slen_bytes = slen_bytes.saturating_sub(r.range(1, 7));
                kind = "source-odd";
            }
        }
    }
    let src = fill(r, slen_bytes);
    let dst0 = fill(r, dlen);
    let mut dst = dst0.clone();
    let got = catch_unwind(AssertUnwindSafe(|| real::bitwise_memcpy(&mut dst, dbs2, &src, sbs2, len)));
    let line = format!("mc {} {} {} {} {}", hx(&dst0), dbs2, hx(&src), sbs2, len);
    out.nontrivial(&line);
    out.count(&format!("mc_{kind}"));
    let in_guard = len == 0 || (sbs2 <= 7 && dbs2 <= 7 && src.len() / 8 == (sbs2 + len + 63) / 64 && dst0.len() >= (dbs2 + len + 7) / 8);
    match got {
        Err(_) => {
            out.line(line.clone(), "panic".into());
            out.count("mc_panic");
            if in_guard {
                out.fail(format!("C16 bitwise_memcpy panicked inside its contract: {line}"));
            }
        }
        Ok(()) => {
            out.line(line.clone(), hx(&dst));
            if in_guard {
                let exp = naive_memcpy(&dst0, dbs2, &src, sbs2, len);
                if exp != dst {
                    let p = (0..8 * dst.len()).find(|&i| gbit(&exp, i) != gbit(&dst, i)).unwrap();
                    let what = if p >= dbs2 && p < dbs2 + len { "copied a wrong bit" } else { "changed a bit outside the range" };
                    out.fail(format!("C16 bitwise_memcpy {what} at destination bit {p}: {line} -> {}", hex(&dst)));
                }
                let sh = if sbs2 == dbs2 { "none" } else if sbs2 > dbs2 { "left" } else { "right" };
                out.count(&format!("mc_shift_{sh}"));
                out.count(&format!("mc_chunks_{}", chunks.min(4)));
                if sbs2 > dbs2 && chunks >= 2 && (dbs2 + len + 7) / 8 == 8 * (chunks - 1) {
                    out.count("mc_left_last_chunk_only_remainder");
                }
                if dbs2 > sbs2 && (dbs2 + len + 7) / 8 > 8 * chunks {
                    out.count("mc_right_extra_byte");
                }
            } else {
                // outside the contract and no panic: did it silently do something else than the copy?
                let fits = 8 * dst0.len() >= dbs2 + len && 8 * src.len() >= sbs2 + len;
                if fits && naive_memcpy(&dst0, dbs2, &src, sbs2, len) == dst {
                    out.count("mc_outside_guard_still_right");
                } else {
                    out.count("mc_outside_guard_silent_garbage");
                }
            }
        }
    }
}

// ------------------------------------------------------------------------------------------------
// branch nodes: the real builder (`new` / `push` / `push_chunk`) and `get_key` on caller-supplied pages

use nomt::verif_api::branch_node as realnode;

const PAGE: usize = 4096;

#[derive(Clone)]
struct Item {
    key: Key,
    sep_len: usize,
    pn: u32,
}

fn steps_str(steps: &[realnode::Step]) -> String {
    if steps.is_empty() {
        return "-".into();
    }
    steps
        .iter()
        .map(|s| match s {
            realnode::Step::Push(k, l, pn) => format!("P:{}:{}:{}", hex(k), l, pn),
            realnode::Step::Chunk { from, to, updated } => format!(
                "C:{}:{}:{}",
                from,
                to,
                if updated.is_empty() { "-".to_string() } else { updated.iter().map(|(i, pn)| format!("{i}={pn}")).collect::<Vec<_>>().join(",") }
            ),
        })
        .collect::<Vec<_>>()
        .join(";")
}

fn common_prefix(items: &[Item]) -> usize {
    let mut pl = 256;
    for it in items {
        pl = pl.min(naive_prefix_len(&items[0].key, &it.key));
    }
    pl
}

/// sorted distinct separator keys: `shared` common bits, then a random tail cut to a random separator length
fn gen_items(r: &mut Rng, n: usize, shared: usize) -> Vec<Item> {
    let base = r.bytes32();
    let mut keys: Vec<Key> = Vec::new();
    let mut guard = 0;
    while keys.len() < n && guard < 10 * n + 20 {
        guard += 1;
        let mut k = with_prefix(r, &base, shared);
        // separators are short: cut after a few more bits (sometimes inside the shared prefix: trailing zero compression)
        let cut = match r.below(6) {
            0 => 256,
            1 => shared.saturating_sub(r.below(9)),
            2 => (shared + r.below(4)).min(256),
            _ => (shared + 1 + r.below(70)).min(256),
        };
        k = prefix_padded(&k, cut);
        if !keys.contains(&k) {
            keys.push(k);
        }
    }
    keys.sort();
    keys.into_iter().map(|k| Item { key: k, sep_len: naive_separator_len(&k), pn: r.next() as u32 }).collect()
}

fn node_line(initial: &[u8], n: usize, pc: usize, pl: usize, base: Option<&[u8]>, steps: &[realnode::Step]) -> String {
    format!("bn {} {} {} {} {} {}", hx(initial), n, pc, pl, base.map(|b| hx(b)).unwrap_or("-".into()), steps_str(steps))
}

fn build_real(initial: &[u8], n: usize, pc: usize, pl: usize, base: Option<&[u8]>, steps: &[realnode::Step]) -> Option<Vec<u8>> {
    catch_unwind(AssertUnwindSafe(|| realnode::build(initial, n, pc, pl, base, steps))).ok()
}

fn check_keys(out: &mut Sink, what: &str, page: &[u8], expected: &[Item], line: &str) {
    for (i, it) in expected.iter().enumerate() {
        let got = catch_unwind(AssertUnwindSafe(|| realnode::get_key(page, i)));
        let gl = format!("gk {} {}", hx(page), i);
        match got {
            Err(_) => {
                out.line(gl, "panic".into());
                out.fail(format!("C16 get_key({i}) panicked on a {what}: {}", &line[..line.len().min(200)]));
            }
            Ok(k) => {
                // the protocol line only for a sample of indices (pages are 8 KiB of hex each)
                if i == 0 || i + 1 == expected.len() || i % 7 == 3 {
                    out.line(gl, hex(&k));
                }
                if k != it.key {
                    out.fail(format!("C16 get_key({i}) of a {what} returned {} instead of the key pushed {}: {}", hex(&k), hex(&it.key), &line[..line.len().min(200)]));
                }
                let off = PAGE - (expected.len() - i) * 4;
                let pn = u32::from_le_bytes(page[off..off + 4].try_into().unwrap());
                if pn != it.pn {
                    out.fail(format!("C16 node pointer {i} of a {what} is {pn} instead of {}: {}", it.pn, &line[..line.len().min(200)]));
                }
            }
        }
    }
}

fn nodes(r: &mut Rng, out: &mut Sink) {
    // ---- a base node built by `push`
    let shared = edge_len(r, 250);
    let nb = if r.chance(1, 8) { r.range(40, 90) } else { r.range(1, 24) };
    let mut items = gen_items(r, nb, shared);
    if items.is_empty() {
        return;
    }
    // some trailing keys outside the shared prefix (uncompressed tail)
    let tail = if r.chance(1, 3) { r.range(1, 4) } else { 0 };
    let sh_out = r.below(8);
    let mut outsiders = gen_items(r, tail, sh_out);
    outsiders.retain(|o| o.key > items.last().unwrap().key);
    let pc_base = items.len();
    items.extend(outsiders);
    let n_base = items.len();
    let mut pl_base = common_prefix(&items[..pc_base]);
    if r.chance(1, 4) {
        pl_base = pl_base.saturating_sub(r.below(20));
    }
    let initial = fill(r, PAGE);
    let base_steps: Vec<realnode::Step> = items.iter().map(|it| realnode::Step::Push(it.key, it.sep_len, it.pn)).collect();
    let line = node_line(&initial, n_base, pc_base, pl_base, None, &base_steps);
    out.nontrivial(&line);
    out.count("bn_push");
    let Some(base_page) = build_real(&initial, n_base, pc_base, pl_base, None, &base_steps) else {
        out.line(line.clone(), "panic".into());
        out.fail(format!("C16 BranchNodeBuilder::push panicked on a well-formed node: {}", &line[..200.min(line.len())]));
        return;
    };
    out.line(line.clone(), hx(&base_page));
    check_keys(out, "pushed node", &base_page, &items, &line);

    // ---- a new node taking a chunk of the base's compressed separators, pushes before / after
    for _ in 0..2 {
        let from = r.below(pc_base);
        let to = r.range(from + 1, pc_base);
        let mut expected: Vec<Item> = Vec::new();
        let mut steps: Vec<realnode::Step> = Vec::new();
        // pushes before the chunk: keys below the chunk's first key sharing some prefix with it
        let n_before = if r.chance(1, 2) { 0 } else { r.range(1, 3) };
        let share_new = match r.below(4) {
            0 => pl_base,
            1 => pl_base.saturating_sub(r.range(1, 70)),
            2 => (pl_base + r.range(1, 70)).min(common_prefix(&items[from..to])),
            _ => r.below(common_prefix(&items[from..to]) + 1),
        };
        let mut before: Vec<Item> = Vec::new();
        for _ in 0..n_before {
            let k = with_prefix(r, &items[from].key, share_new);
            let cut = (share_new + 1 + r.below(40)).min(256);
            let k = prefix_padded(&k, cut);
            if k < items[from].key && !before.iter().any(|b: &Item| b.key == k) {
                before.push(Item { key: k, sep_len: naive_separator_len(&k), pn: r.next() as u32 });
            }
        }
        before.sort_by(|a, b| a.key.cmp(&b.key));
        for b in &before {
            steps.push(realnode::Step::Push(b.key, b.sep_len, b.pn));
            expected.push(b.clone());
        }
        let mut updated: Vec<(usize, u32)> = Vec::new();
        for i in 0..(to - from) {
            let mut it = items[from + i].clone();
            if r.chance(1, 5) {
                it.pn = r.next() as u32;
                updated.push((i, it.pn));
            }
            expected.push(it);
        }
        steps.push(realnode::Step::Chunk { from, to, updated });
        // pushes after: uncompressed outsiders
        let n_after = if r.chance(1, 2) { 0 } else { r.range(1, 3) };
        let pc_new = expected.len();
        let sh_after = r.below(8);
        let mut after = gen_items(r, n_after, sh_after);
        after.retain(|o| o.key > expected.last().unwrap().key);
        for a in &after {
            steps.push(realnode::Step::Push(a.key, a.sep_len, a.pn));
            expected.push(a.clone());
        }
        let n_new = expected.len();
        let full = common_prefix(&expected[..pc_new]);
        let mut kind = "valid";
        let pl_new = match r.below(10) {
            0 => full.saturating_sub(r.range(1, 9)),
            1 => full.saturating_sub(r.range(1, 130)),
            2 if r.chance(1, 3) => {
                kind = "prefix-too-long";
                (full + r.range(1, 20)).min(300)
            }
            _ => full,
        };
        let (mut n_hdr, mut pc_hdr) = (n_new, pc_new);
        if r.chance(1, 25) {
            kind = "n-too-small";
            n_hdr = n_new.saturating_sub(1);
            pc_hdr = pc_hdr.min(n_hdr);
        }
        let initial = fill(r, PAGE);
        let line = node_line(&initial, n_hdr, pc_hdr, pl_new, Some(&base_page), &steps);
        out.nontrivial(&line);
        out.count(&format!("bn_chunk_{kind}"));
        if kind == "valid" {
            let rel = if pl_new == pl_base { "same" } else if pl_new < pl_base { "shorter" } else { "longer" };
            out.count(&format!("bn_chunk_prefix_{rel}"));
        }
        match build_real(&initial, n_hdr, pc_hdr, pl_new, Some(&base_page), &steps) {
            None => {
                out.line(line.clone(), "panic".into());
                out.count("bn_panic");
                if kind == "valid" {
                    out.fail(format!("C16 BranchNodeBuilder::push_chunk panicked on a well-formed request: {}…", &line[line.len().saturating_sub(300)..]));
                }
            }
            Some(page) => {
                out.line(line.clone(), hx(&page));
                if kind == "valid" {
                    check_keys(out, "node built with push_chunk", &page, &expected, &line[line.len().saturating_sub(300)..]);
                }
            }
        }
    }
}

#[path = "pushchunk.rs"]
pub mod pushchunk;

pub fn run_nodes(seed: u64, cases: usize, out: &mut Sink) {
    let mut rng = Rng::new(seed ^ 0xB17E);
    for case in 0..cases {
        let mut r = rng.fork();
        out.mark_case(format!("case {case}"));
        nodes(&mut r, out);
    }
}

pub fn run(seed: u64, cases: usize, out: &mut Sink) {
    let mut rng = Rng::new(seed ^ 0xB175);
    for case in 0..cases {
        let mut r = rng.fork();
        out.mark_case(format!("case {case}"));
        masks(&mut r, out);
        keys(&mut r, out);
        for _ in 0..3 {
            reconstruct(&mut r, out);
        }
        for _ in 0..6 {
            memcpy(&mut r, out);
        }
    }
}
