//! C02 / C16 / C13: the page walker (`nomt/src/merkle/page_walker.rs`), the real `PageWalker<Blake3Hasher>` over an in-memory
//! implementation of its `PageSet` trait (hook H14, `nomt::verif_api::page_walker`), driven call by call.
//!
//! Every call is one protocol line for the Lean driver's `walker` mode (the mirror `Store/Walker*.lean`); the answer carries the
//! walker's private state after the call (position, stack entries with diff words / counters / bitfields, sibling stack, a digest
//! of the top page) and, at `conclude`, the root / child-page roots and EVERY updated page with all its non-zero slots.
//!
//! Histories: several passes on one page store (pass n+1 starts from what pass n produced, as commits do); before a pass the
//! harness plays the part of `seek`: every page on the way to a terminal that is elided in its parent is rebuilt with the real
//! `reconstruct_pages` from the leaves below it.  Flows: one walker over the whole trie; the split flow of `merkle::worker`
//! (walkers with `parent_page = ROOT` deliver child-page roots which a root-page walker places with `advance_and_place_node`);
//! free-form scripts (backwards / same / into the parent page / below the previous terminal / missing pages / internal start
//! nodes) where the real code panics by contract.
//!
//! Oracles (independent of the Lean model):
//!   * C02 root: the concluded root = the reference trie root of the BTreeMap after the batch;
//!   * C02 slot: every slot of every stored page whose parent position is internal holds the reference node of its position
//!     (checked for the WHOLE store after every pass: a page the walker did not report is unchanged and still right);
//!   * C02 elision: pages with >= 20 leaves below / root / children of root are stored when they exist, a stored page exists,
//!     its ancestors are stored, the elided-children bit of every existing child = "not stored";
//!   * C13 child roots: every child-page root a sub-walker delivers = the reference node at that position;
//!   * C16 diff: a page that stays in its bucket names every slot whose content differs from the stored content; a page that
//!     goes to a fresh bucket names every meaningful slot; a cleared page was stored before and is not required afterwards.
use crate::util::*;
use nomt::verif_api::page_walker as pw;
use nomt_core::page_id::{ChildPageIndex, PageId, ROOT_PAGE_ID};
use nomt_core::trie::{LeafData, Node};
use std::collections::BTreeMap;
use std::panic::{catch_unwind, AssertUnwindSafe};

const THRESHOLD: usize = pw::PAGE_ELISION_THRESHOLD as usize;
const CLEAR_BIT: u64 = 1 << 63;

fn guard<T>(f: impl FnOnce() -> T) -> Option<T> {
    catch_unwind(AssertUnwindSafe(f)).ok()
}

// ---------------------------------------------------------------------------------------------------------------
// formats

fn pid_str(p: &PageId) -> String {
    let e = p.length_dependent_encoding();
    if e.is_empty() {
        "-".into()
    } else {
        e.iter().map(|x| x.to_string()).collect::<Vec<_>>().join(".")
    }
}
fn mk_pid(path: &[u8]) -> PageId {
    let mut p = ROOT_PAGE_ID;
    for &c in path {
        p = p.child_page_id(ChildPageIndex::new(c).unwrap()).unwrap();
    }
    p
}
fn bits_string(b: &[bool]) -> String {
    if b.is_empty() {
        "-".into()
    } else {
        b.iter().map(|&x| if x { '1' } else { '0' }).collect()
    }
}
fn key_bits(k: &Key, n: usize) -> Vec<bool> {
    (0..n).map(|i| bit(k, i)).collect()
}
fn slots_str(d: &pw::PageData) -> String {
    let v: Vec<String> = d.nodes.iter().enumerate().filter(|(_, n)| **n != [0u8; 32]).map(|(i, n)| format!("{}={}", i, hex(n))).collect();
    if v.is_empty() {
        "-".into()
    } else {
        v.join(",")
    }
}
fn digest(d: &pw::PageData) -> u64 {
    let mut h: u64 = 0xcbf29ce484222325;
    for n in &d.nodes {
        for b in n {
            h ^= *b as u64;
            h = h.wrapping_mul(0x100000001b3);
        }
    }
    for b in d.elided.to_le_bytes() {
        h ^= b as u64;
        h = h.wrapping_mul(0x100000001b3);
    }
    h
}
fn opt_u64(o: Option<u64>) -> String {
    match o {
        None => "-".into(),
        Some(n) => n.to_string(),
    }
}
fn bucket_str(b: &pw::Bucket) -> String {
    match b {
        None => "fresh".into(),
        Some(n) => n.to_string(),
    }
}
fn origin_str(o: &pw::Origin) -> String {
    match o {
        pw::Origin::Persisted(b) => format!("P.{}", bucket_str(b)),
        pw::Origin::Reconstructed { page_leaves_counter, children_leaves_counter, diff } => format!("R.{}.{}.{}.{}", page_leaves_counter, children_leaves_counter, diff[0], diff[1]),
    }
}
fn state_str(sim: &pw::WalkerSim) -> String {
    let s = sim.state();
    let stack: Vec<String> = s
        .stack
        .iter()
        .map(|e| {
            format!(
                "{}/{}/{}/{}/{}/{}/{}/{}/{}",
                pid_str(&e.page_id),
                e.diff[0],
                e.diff[1],
                match &e.bucket {
                    None => "none".to_string(),
                    Some(b) => bucket_str(b),
                },
                opt_u64(e.page_leaves_counter),
                opt_u64(e.prev_children_leaves_counter),
                opt_u64(e.children_leaves_counter),
                e.elided,
                match e.reconstruction_diff {
                    None => "-".to_string(),
                    Some(d) => format!("{}.{}", d[0], d[1]),
                }
            )
        })
        .collect();
    let sib: Vec<String> = s.sibling_stack.iter().map(|(n, d)| format!("{}@{}", hex(n), d)).collect();
    format!(
        "ok pos={} last={} root={} cpr={} out={} prev={} sib={} stack={} top={}",
        bits_string(&s.position),
        match &s.last_position {
            None => "none".to_string(),
            Some(b) => bits_string(b),
        },
        hex(&s.root),
        s.child_page_roots,
        s.output_pages,
        match s.prev_node {
            None => "-".to_string(),
            Some(n) => hex(&n),
        },
        if sib.is_empty() { "-".to_string() } else { sib.join(",") },
        if stack.is_empty() { "-".to_string() } else { stack.join(";") },
        match sim.stack_top_page() {
            None => "-".to_string(),
            Some(d) => format!("{:016x}", digest(&d)),
        }
    )
}
fn output_str(o: &pw::OutputView) -> String {
    let cpr: Vec<String> = o.child_page_roots.iter().map(|(b, n)| format!("{}={}", bits_string(b), hex(n))).collect();
    let pages: Vec<String> = o.pages.iter().map(|p| format!("{}|{}|{}|{}|{}|{}", pid_str(&p.page_id), p.page.elided, p.diff[0], p.diff[1], bucket_str(&p.bucket), slots_str(&p.page))).collect();
    format!(
        "ok root={} cpr={} pages={}",
        match o.root {
            None => "-".to_string(),
            Some(n) => hex(&n),
        },
        if cpr.is_empty() { "-".to_string() } else { cpr.join(",") },
        if pages.is_empty() { "-".to_string() } else { pages.join(";") }
    )
}
fn recon_str(v: &[pw::ReconstructedView]) -> String {
    let pages: Vec<String> = v.iter().map(|p| format!("{}|{}|{}|{}|{}|{}|{}", pid_str(&p.page_id), p.page.elided, p.diff[0], p.diff[1], p.page_leaves_counter, p.children_leaves_counter, slots_str(&p.page))).collect();
    format!("ok {}", if pages.is_empty() { "-".to_string() } else { pages.join(";") })
}

// ---------------------------------------------------------------------------------------------------------------
// addressing (harness-side, from the specification)

/// the bit path of slot `i` of page `p`
fn slot_path(p: &[u8], i: usize) -> Vec<bool> {
    let mut bits: Vec<bool> = Vec::new();
    for &c in p {
        for j in 0..6 {
            bits.push((c >> (5 - j)) & 1 == 1);
        }
    }
    let mut r = 1;
    while (1usize << (r + 1)) - 2 <= i {
        r += 1;
    }
    let off = i - ((1usize << r) - 2);
    for j in 0..r {
        bits.push((off >> (r - 1 - j)) & 1 == 1);
    }
    bits
}
fn page_of(bits: &[bool]) -> Vec<u8> {
    let d = bits.len();
    if d == 0 {
        return vec![];
    }
    let n = (d - 1) / 6;
    (0..n).map(|i| bits[6 * i..6 * i + 6].iter().fold(0u8, |a, &b| a * 2 + b as u8)).collect()
}
fn has_prefix(k: &Key, p: &[bool]) -> bool {
    p.iter().enumerate().all(|(i, &b)| bit(k, i) == b)
}
fn under<'a>(kvs: &'a [(Key, [u8; 32])], p: &[bool]) -> &'a [(Key, [u8; 32])] {
    let lo = kvs.partition_point(|(k, _)| key_bits(k, p.len()).as_slice() < p);
    let hi = kvs.partition_point(|(k, _)| key_bits(k, p.len()).as_slice() <= p);
    &kvs[lo..hi]
}
fn page_bits(p: &[u8]) -> Vec<bool> {
    let mut bits = Vec::new();
    for &c in p {
        for j in 0..6 {
            bits.push((c >> (5 - j)) & 1 == 1);
        }
    }
    bits
}

// ---------------------------------------------------------------------------------------------------------------
// the world of one case

#[derive(Clone)]
struct Stored {
    data: pw::PageData,
    bucket: u64,
}

struct World<'a> {
    out: &'a mut Sink,
    sim: pw::WalkerSim,
    /// harness-side copy of the persisted pages (what a commit leaves in the hash table)
    store: BTreeMap<Vec<u8>, Stored>,
    kv: BTreeMap<Key, [u8; 32]>,
    root: Node,
    next_bucket: u64,
    inhibit: bool,
    pending: Vec<pw::UpdatedView>,
    alive: bool,
    case: String,
    lines0: usize,
    /// ids of the pages the real `reconstruct_pages` produced since the last `w_apply` (what the seek of this pass rebuilt)
    recon_ids: std::collections::BTreeSet<Vec<u8>>,
    /// terminals of this pass that lie in or below a reconstructed page
    recon_entered: usize,
}

#[derive(Clone, Debug)]
struct Terminal {
    pos: Vec<bool>,
    leaf: Option<(Key, [u8; 32])>,
    ops: Vec<(Key, Option<[u8; 32]>)>,
    has_writes: bool,
}

impl<'a> World<'a> {
    fn new(out: &'a mut Sink, garbage: Option<u8>, inhibit: bool, case: String) -> Self {
        let mut sim = pw::WalkerSim::new();
        sim.set_garbage(garbage);
        let lines0 = out.ops.len();
        out.line(format!("wreset {}", match garbage { None => "-".to_string(), Some(g) => g.to_string() }), "ok".into());
        World { out, sim, store: BTreeMap::new(), kv: BTreeMap::new(), root: [0u8; 32], next_bucket: 1, inhibit, pending: vec![], alive: false, case, lines0, recon_ids: Default::default(), recon_entered: 0 }
    }
    fn fail(&mut self, msg: String) {
        let c = self.case.clone();
        self.out.fail(format!("{msg} [{c}]"));
    }
    fn kvs(&self) -> Vec<(Key, [u8; 32])> {
        self.kv.iter().map(|(k, v)| (*k, *v)).collect()
    }

    // ----- protocol primitives (each = one line) -----
    fn w_new(&mut self, root: Node, parent: Option<&[u8]>) {
        let pp = parent.map(mk_pid);
        self.sim.walker_new(root, pp, self.inhibit);
        self.alive = true;
        self.out.line(format!("wnew {} {} {}", hex(&root), match parent { None => "none".to_string(), Some(p) => pid_str(&mk_pid(p)) }, self.inhibit as u8), "ok".into());
    }
    fn after_call(&mut self, op: String, r: Option<()>) -> bool {
        match r {
            Some(()) => {
                let s = state_str(&self.sim);
                self.out.line(op, s);
                true
            }
            None => {
                self.sim.drop_walker();
                self.alive = false;
                self.out.line(op, "panic".into());
                self.out.count("walker_panics");
                false
            }
        }
    }
    fn w_adv(&mut self, pos: &[bool]) -> bool {
        if !self.alive {
            self.out.line(format!("wadv {}", bits_string(pos)), "nowalker".into());
            return false;
        }
        let sim = &mut self.sim;
        let r = guard(|| sim.advance(pw::position(pos)));
        self.out.count("call_advance");
        self.after_call(format!("wadv {}", bits_string(pos)), r)
    }
    fn w_rep(&mut self, pos: &[bool], ops: &[(Key, [u8; 32])]) -> bool {
        let op = format!("wrep {} {}", bits_string(pos), kv_line(ops));
        if !self.alive {
            self.out.line(op, "nowalker".into());
            return false;
        }
        let sim = &mut self.sim;
        let r = guard(|| sim.advance_and_replace(pw::position(pos), ops.to_vec()));
        self.out.count("call_advance_and_replace");
        self.after_call(op, r)
    }
    fn w_place(&mut self, pos: &[bool], node: Node) -> bool {
        let op = format!("wplace {} {}", bits_string(pos), hex(&node));
        if !self.alive {
            self.out.line(op, "nowalker".into());
            return false;
        }
        let sim = &mut self.sim;
        let r = guard(|| sim.advance_and_place_node(pw::position(pos), node));
        self.out.count("call_advance_and_place_node");
        self.after_call(op, r)
    }
    fn w_conclude(&mut self) -> Option<pw::OutputView> {
        if !self.alive {
            self.out.line("wconclude".into(), "nowalker".into());
            return None;
        }
        let sim = &mut self.sim;
        let r = guard(|| sim.conclude());
        self.alive = false;
        self.out.count("call_conclude");
        match r {
            Some(o) => {
                self.out.line("wconclude".into(), output_str(&o));
                self.out.add("updated_pages", o.pages.len() as u64);
                self.out.add("cleared_pages", o.pages.iter().filter(|p| p.diff[1] & CLEAR_BIT != 0).count() as u64);
                self.pending.extend(o.pages.iter().cloned());
                Some(o)
            }
            None => {
                self.sim.drop_walker();
                self.out.line("wconclude".into(), "panic".into());
                self.out.count("walker_panics");
                None
            }
        }
    }
    fn w_recon(&mut self, parent: &[u8], pos: &[bool], ops: &[(Key, [u8; 32])]) -> Option<Vec<pw::ReconstructedView>> {
        let op = format!("wrecon {} {} {}", pid_str(&mk_pid(parent)), bits_string(pos), kv_line(ops));
        let sim = &mut self.sim;
        let pid = mk_pid(parent);
        let r = guard(|| sim.reconstruct(pid, pw::position(pos), ops.to_vec()));
        self.out.count("call_reconstruct");
        match r {
            None => {
                self.out.line(op, "panic".into());
                self.out.count("walker_panics");
                None
            }
            Some(None) => {
                self.out.line(op, "nopage".into());
                None
            }
            Some(Some(None)) => {
                self.out.line(op, "none".into());
                None
            }
            Some(Some(Some(v))) => {
                self.out.line(op, recon_str(&v));
                self.out.add("reconstructed_pages", v.len() as u64);
                // what `seek` does with the result
                for p in &v {
                    self.sim.set_insert(p.page_id.clone(), &p.page, &pw::Origin::Reconstructed { page_leaves_counter: p.page_leaves_counter, children_leaves_counter: p.children_leaves_counter, diff: p.diff });
                }
                Some(v)
            }
        }
    }
    fn w_put(&mut self, page: &[u8], data: &pw::PageData, origin: &pw::Origin) {
        self.sim.set_insert(mk_pid(page), data, origin);
        if let pw::Origin::Persisted(Some(n)) = origin {
            self.next_bucket = self.next_bucket.max(n + 1);
        }
        self.out.line(format!("wput {} {} {} {}", pid_str(&mk_pid(page)), origin_str(origin), data.elided, slots_str(data)), "ok".into());
    }
    fn w_set(&mut self) {
        let mut v = Vec::new();
        for id in self.sim.set_ids() {
            let (d, o) = self.sim.set_get(&id).unwrap();
            v.push(format!("{}:{}:{:016x}", pid_str(&id), origin_str(&o), digest(&d)));
        }
        self.out.line("wset".into(), format!("ok {}", if v.is_empty() { "-".to_string() } else { v.join(";") }));
    }
    /// the commit: reconstructed pages are forgotten, cleared pages leave the store, the others are stored in their bucket
    /// (a fresh bucket number for pages that had none)
    fn w_apply(&mut self) {
        for id in self.sim.set_ids() {
            if let Some((_, pw::Origin::Reconstructed { .. })) = self.sim.set_get(&id) {
                self.sim.set_remove(&id);
            }
        }
        let pend = std::mem::take(&mut self.pending);
        for p in pend {
            let path = p.page_id.length_dependent_encoding().to_vec();
            if p.diff[1] & CLEAR_BIT != 0 {
                self.sim.set_remove(&p.page_id);
                self.store.remove(&path);
            } else {
                let b = match p.bucket {
                    Some(b) => b,
                    None => {
                        let b = self.next_bucket;
                        self.next_bucket += 1;
                        b
                    }
                };
                self.sim.set_insert(p.page_id.clone(), &p.page, &pw::Origin::Persisted(Some(b)));
                self.store.insert(path, Stored { data: p.page.clone(), bucket: b });
            }
        }
        self.recon_ids.clear();
        self.recon_entered = 0;
        self.out.line("wapply".into(), "ok".into());
        self.w_set();
    }

    // ----- the part of `seek`: terminals of a batch, reconstruction of elided pages on the way -----
    fn terminals(&self, batch: &[(Key, Option<Option<[u8; 32]>>)]) -> Vec<Terminal> {
        // batch: key -> None = read only, Some(None) = delete, Some(Some(v)) = write
        let kvs = self.kvs();
        let mut res: Vec<Terminal> = Vec::new();
        for (k, op) in batch {
            if let Some(last) = res.last_mut() {
                if has_prefix(k, &last.pos) {
                    if let Some(w) = op {
                        last.ops.push((*k, *w));
                        last.has_writes = true;
                    }
                    continue;
                }
            }
            let mut cur: &[(Key, [u8; 32])] = &kvs;
            let mut d = 0;
            while cur.len() >= 2 {
                let mid = cur.partition_point(|(x, _)| !bit(x, d));
                cur = if bit(k, d) { &cur[mid..] } else { &cur[..mid] };
                d += 1;
            }
            let mut t = Terminal { pos: key_bits(k, d), leaf: cur.first().cloned(), ops: vec![], has_writes: false };
            if let Some(w) = op {
                t.ops.push((*k, *w));
                t.has_writes = true;
            }
            res.push(t);
        }
        res
    }
    fn seek(&mut self, pos: &[bool]) -> bool {
        // every page on the way to `pos` must be in the page set; an elided one is reconstructed from the leaves below it
        let path = page_of(pos);
        if pos.is_empty() {
            return true;
        }
        for l in 0..=path.len() {
            let pid = mk_pid(&path[..l]);
            if self.sim.set_get(&pid).is_some() {
                continue;
            }
            if l < 2 {
                self.fail(format!("C02 page {} on the way to terminal {} is neither stored nor elidable", pid_str(&pid), bits_string(pos)));
                return false;
            }
            let parent = &path[..l - 1];
            let (pdata, _) = self.sim.set_get(&mk_pid(parent)).unwrap();
            if (pdata.elided >> path[l - 1]) & 1 != 1 {
                self.fail(format!("C02 page {} on the way to terminal {} is not stored and its elided bit is not set in its parent", pid_str(&pid), bits_string(pos)));
                return false;
            }
            let at = &pos[..6 * l];
            let kvs = self.kvs();
            let below = under(&kvs, at).to_vec();
            if below.len() >= THRESHOLD && !self.inhibit {
                self.fail(format!("C02 page {} holds {} leaves but is elided", pid_str(&pid), below.len()));
            }
            let Some(views) = self.w_recon(parent, at, &below) else {
                return false;
            };
            self.check_recon(&views, &path[..l], &below);
            if self.sim.set_get(&pid).is_none() {
                self.fail(format!("C02 reconstruction below {} did not produce page {}", bits_string(at), pid_str(&pid)));
                return false;
            }
        }
        if self.recon_ids.contains(&path) {
            // the terminal lies in a page the seek of this pass reconstructed: the walk will ENTER it
            self.recon_entered += 1;
            self.out.count("terminal_in_reconstructed_page");
        }
        true
    }

    // ----- oracles -----
    /// the pages the real `reconstruct_pages` yielded for the elided page `first` from the leaves `below` (all under it):
    /// exactly the pages at / below `first` whose prefix holds >= 2 leaves, every slot whose parent is internal = reference
    /// node, leaf counters = numbers of leaves (in the page / in the pages below it), the diff names every meaningful slot
    fn check_recon(&mut self, views: &[pw::ReconstructedView], first: &[u8], below: &[(Key, [u8; 32])]) {
        let mut got: BTreeMap<Vec<u8>, &pw::ReconstructedView> = BTreeMap::new();
        for v in views {
            let path = v.page_id.length_dependent_encoding().to_vec();
            if got.insert(path.clone(), v).is_some() {
                self.fail(format!("C02 recon: page {} is reconstructed twice", pid_str(&v.page_id)));
            }
            self.recon_ids.insert(path);
        }
        // the pages that must be there
        let mut todo: Vec<Vec<u8>> = vec![first.to_vec()];
        let mut want_pages = 0usize;
        while let Some(path) = todo.pop() {
            let pre = page_bits(&path);
            let here = under(below, &pre);
            if here.len() < 2 {
                continue;
            }
            want_pages += 1;
            let Some(v) = got.get(&path) else {
                self.fail(format!("C02 recon: page {} ({} leaves below) was not reconstructed", pid_str(&mk_pid(&path)), here.len()));
                continue;
            };
            let mut leaves_in_page = 0u64;
            for i in 0..126 {
                let sp = slot_path(&path, i);
                if sp.len() > 256 {
                    continue;
                }
                if under(below, &sp[..sp.len() - 1]).len() >= 2 {
                    let sub = under(below, &sp);
                    let want = ref_node(sub, sp.len());
                    if v.page.nodes[i] != want {
                        self.fail(format!("C02 recon: slot {} of reconstructed page {} holds {} but the node at {} is {}", i, pid_str(&v.page_id), hex(&v.page.nodes[i]), bits_string(&sp), hex(&want)));
                    }
                    if sub.len() == 1 {
                        leaves_in_page += 1;
                    }
                    let changed = if i < 64 { (v.diff[0] >> i) & 1 == 1 } else { (v.diff[1] >> (i - 64)) & 1 == 1 };
                    if !changed {
                        self.fail(format!("C16 recon diff: the diff of reconstructed page {} does not name the meaningful slot {}", pid_str(&v.page_id), i));
                    }
                }
            }
            if v.page_leaves_counter != leaves_in_page {
                self.fail(format!("C02 recon counters: page {} reports {} leaves in the page, the reference trie has {}", pid_str(&v.page_id), v.page_leaves_counter, leaves_in_page));
            }
            if v.page_leaves_counter + v.children_leaves_counter != here.len() as u64 {
                self.fail(format!("C02 recon counters: page {} reports {} + {} leaves, {} keys lie below it", pid_str(&v.page_id), v.page_leaves_counter, v.children_leaves_counter, here.len()));
            }
            if path.len() < 42 {
                let mut seen = std::collections::BTreeSet::new();
                for (k, _) in here {
                    seen.insert((0..6).fold(0u8, |a, j| a * 2 + bit(k, pre.len() + j) as u8));
                }
                for c in seen {
                    let mut cp = path.clone();
                    cp.push(c);
                    let n = under(below, &page_bits(&cp)).len();
                    if n >= 2 && (v.page.elided >> c) & 1 != 1 {
                        self.fail(format!("C02 recon: reconstructed page {} does not flag its child {} ({} leaves) as elided", pid_str(&v.page_id), c, n));
                    }
                    todo.push(cp);
                }
            }
        }
        if want_pages != views.len() {
            self.fail(format!("C02 recon: {} pages reconstructed below {}, the reference trie has {}", views.len(), pid_str(&mk_pid(first)), want_pages));
        }
        self.out.count("recon_checked");
        self.out.add("recon_checked_pages", views.len() as u64);
        let depth = views.iter().map(|v| v.page_id.depth()).max().unwrap_or(0).saturating_sub(first.len()) + 1;
        self.out.count(&format!("recon_chain_depth_{}", depth.min(5)));
        self.out.count(&format!("recon_leaves_{}", match below.len() { 0..=1 => "0_1", 2..=4 => "2_4", 5..=9 => "5_9", 10..=15 => "10_15", 16..=19 => "16_19", _ => "20_plus" }));
    }
    /// the whole store against the reference trie of `self.kv`
    fn check_store(&mut self, what: &str) {
        let kvs = self.kvs();
        let store = self.store.clone();
        // which pages must / may exist
        for (path, st) in &store {
            let pre = page_bits(path);
            let below = under(&kvs, &pre);
            if below.len() < 2 {
                self.fail(format!("C02 {what}: stored page {} lies below a node that is not internal ({} keys)", pid_str(&mk_pid(path)), below.len()));
                continue;
            }
            if !path.is_empty() && !store.contains_key(&path[..path.len() - 1].to_vec()) {
                self.fail(format!("C02 {what}: stored page {} has no stored parent", pid_str(&mk_pid(path))));
            }
            for i in 0..126 {
                let sp = slot_path(path, i);
                if sp.len() > 256 {
                    continue;
                }
                let parent_keys = under(&kvs, &sp[..sp.len() - 1]).len();
                if parent_keys >= 2 {
                    let want = ref_node(under(&kvs, &sp), sp.len());
                    if st.data.nodes[i] != want {
                        self.fail(format!("C02 {what}: slot {} of page {} holds {} but the node at {} is {}", i, pid_str(&mk_pid(path)), hex(&st.data.nodes[i]), bits_string(&sp), hex(&want)));
                    }
                }
            }
            if !path.is_empty() && path.len() < 42 {
                for c in 0..64u8 {
                    let mut cp = path.clone();
                    cp.push(c);
                    let n = under(&kvs, &page_bits(&cp)).len();
                    if n >= 2 {
                        let bit = (st.data.elided >> c) & 1 == 1;
                        let stored = store.contains_key(&cp);
                        if bit == stored {
                            self.fail(format!("C02 {what}: page {} child {} exists ({} leaves), stored={} but elided bit={}", pid_str(&mk_pid(path)), c, n, stored, bit));
                        }
                    }
                }
            }
        }
        // required pages
        let mut todo: Vec<Vec<u8>> = vec![vec![]];
        while let Some(path) = todo.pop() {
            let pre = page_bits(&path);
            let below = under(&kvs, &pre);
            if below.len() < 2 {
                continue;
            }
            let required = path.len() < 2 || below.len() >= THRESHOLD || self.inhibit;
            if required && !store.contains_key(&path) {
                self.fail(format!("C02 {what}: page {} must be stored ({} leaves below) but is not", pid_str(&mk_pid(&path)), below.len()));
            }
            if path.len() < 42 {
                let mut seen = std::collections::BTreeSet::new();
                for (k, _) in below {
                    let c = (0..6).fold(0u8, |a, j| a * 2 + bit(k, pre.len() + j) as u8);
                    seen.insert(c);
                }
                for c in seen {
                    let mut cp = path.clone();
                    cp.push(c);
                    todo.push(cp);
                }
            }
        }
    }
    /// the diff of every page of an output against the store before the pass (C16) and the cleared-page rule
    fn check_output_pages(&mut self, pages: &[pw::UpdatedView], new_kvs: &[(Key, [u8; 32])], what: &str) {
        let mut seen = std::collections::BTreeSet::new();
        for p in pages {
            let path = p.page_id.length_dependent_encoding().to_vec();
            if !seen.insert(path.clone()) {
                self.fail(format!("C02 {what}: page {} is reported twice", pid_str(&p.page_id)));
            }
            let before = self.store.get(&path).cloned();
            let below = under(new_kvs, &page_bits(&path)).len();
            if p.diff[1] & CLEAR_BIT != 0 {
                if before.is_none() {
                    self.fail(format!("C16 {what}: page {} is cleared but was not stored", pid_str(&p.page_id)));
                }
                if below >= 2 && (path.len() < 2 || below >= THRESHOLD || self.inhibit) {
                    self.fail(format!("C02 {what}: page {} is cleared but {} leaves lie below it", pid_str(&p.page_id), below));
                }
                continue;
            }
            match (&before, p.bucket) {
                (Some(st), Some(b)) => {
                    if st.bucket != b {
                        self.fail(format!("C16 {what}: page {} moves from bucket {} to {}", pid_str(&p.page_id), st.bucket, b));
                    }
                    for i in 0..126 {
                        let changed = if i < 64 { (p.diff[0] >> i) & 1 == 1 } else { (p.diff[1] >> (i - 64)) & 1 == 1 };
                        if st.data.nodes[i] != p.page.nodes[i] && !changed {
                            self.fail(format!("C16 {what}: slot {} of page {} changed ({} -> {}) but the diff does not name it", i, pid_str(&p.page_id), hex(&st.data.nodes[i]), hex(&p.page.nodes[i])));
                        }
                    }
                }
                (None, None) => {
                    // a fresh bucket holds unknown bytes: every meaningful slot must travel in the diff
                    for i in 0..126 {
                        let sp = slot_path(&path, i);
                        if sp.len() > 256 {
                            continue;
                        }
                        let changed = if i < 64 { (p.diff[0] >> i) & 1 == 1 } else { (p.diff[1] >> (i - 64)) & 1 == 1 };
                        if under(new_kvs, &sp[..sp.len() - 1]).len() >= 2 && !changed {
                            self.fail(format!("C16 {what}: page {} goes to a fresh bucket but its diff does not name the meaningful slot {}", pid_str(&p.page_id), i));
                        }
                    }
                }
                (Some(_), None) => self.fail(format!("C16 {what}: stored page {} is reported with a fresh bucket", pid_str(&p.page_id))),
                (None, Some(b)) => self.fail(format!("C16 {what}: page {} was not stored but is reported in bucket {}", pid_str(&p.page_id), b)),
            }
        }
    }
}

// ---------------------------------------------------------------------------------------------------------------
// generators

fn gen_universe(rng: &mut Rng) -> Vec<Key> {
    let mut keys: Vec<Key> = Vec::new();
    let nclusters = rng.range(1, 4);
    for _ in 0..nclusters {
        let base = rng.bytes32();
        match rng.below(6) {
            0 => {
                // cluster under a page boundary
                let k = rng.range(1, 5);
                let d = (6 * k + rng.below(3)).saturating_sub(1);
                for _ in 0..rng.range(2, 9) {
                    keys.push(with_prefix(rng, &base, d));
                }
            }
            1 | 2 => {
                // a cluster around the elision threshold below a page of depth >= 2
                let d = rng.range(12, 26);
                let m = rng.range(THRESHOLD - 4, THRESHOLD + 6);
                let spread = rng.range(2, 14);
                for _ in 0..m {
                    let mut k = with_prefix(rng, &base, d);
                    // keep the keys inside few pages below the prefix
                    if rng.chance(2, 3) {
                        for j in d + spread..(d + spread + 12).min(256) {
                            set_bit(&mut k, j, bit(&base, j));
                        }
                    }
                    keys.push(k);
                }
            }
            3 => {
                // deep fork: a chain of pages that collapses when one side goes
                keys.push(base);
                let mut d = rng.range(7, 60);
                for _ in 0..rng.range(1, 3) {
                    if d > 254 {
                        break;
                    }
                    keys.push(diverge_at(rng, &base, d));
                    d += rng.range(1, 40);
                }
                if rng.chance(1, 3) {
                    keys.push(flip_bit(&base, 255));
                }
            }
            4 => {
                keys.extend(gen_keyset(rng, 10));
            }
            _ => {
                // nested clusters: 8..30 keys under a prefix, a sub-cluster deeper
                let d = rng.range(6, 20);
                for _ in 0..rng.range(4, 14) {
                    keys.push(with_prefix(rng, &base, d));
                }
                let sub = with_prefix(rng, &base, d);
                let d2 = d + rng.range(5, 14);
                for _ in 0..rng.range(4, 16) {
                    keys.push(with_prefix(rng, &sub, d2));
                }
            }
        }
    }
    for _ in 0..rng.below(4) {
        keys.push(rng.bytes32());
    }
    if keys.is_empty() {
        keys.push(rng.bytes32());
    }
    keys.sort();
    keys.dedup();
    keys
}

fn gen_batch(rng: &mut Rng, uni: &[Key], kv: &BTreeMap<Key, [u8; 32]>, pass: usize) -> Vec<(Key, Option<Option<[u8; 32]>>)> {
    let mut m: BTreeMap<Key, Option<Option<[u8; 32]>>> = BTreeMap::new();
    let style = if pass == 0 { rng.below(2) } else { rng.range(1, 6) };
    match style {
        0 => {
            // bulk load
            for k in uni {
                if rng.chance(9, 10) {
                    m.insert(*k, Some(Some(rng.bytes32())));
                }
            }
        }
        1 => {
            for k in uni {
                if rng.chance(1, 2) {
                    m.insert(*k, Some(Some(rng.bytes32())));
                }
            }
        }
        2 => {
            // few changes (crossing a threshold by one or two)
            for _ in 0..rng.range(1, 4) {
                let k = *rng.pick(uni);
                let w = if kv.contains_key(&k) && rng.chance(2, 3) { None } else { Some(rng.bytes32()) };
                m.insert(k, Some(w));
            }
        }
        3 => {
            // delete most of what is there
            for k in kv.keys() {
                if rng.chance(4, 5) {
                    m.insert(*k, Some(None));
                }
            }
        }
        4 => {
            // delete a contiguous run, rewrite some others
            let ks: Vec<Key> = kv.keys().cloned().collect();
            if !ks.is_empty() {
                let a = rng.below(ks.len());
                let b = (a + rng.range(1, 12)).min(ks.len());
                for k in &ks[a..b] {
                    m.insert(*k, Some(None));
                }
            }
            for _ in 0..rng.below(4) {
                m.insert(*rng.pick(uni), Some(Some(rng.bytes32())));
            }
        }
        _ => {
            for k in uni {
                match rng.below(6) {
                    0 => {
                        m.insert(*k, Some(Some(rng.bytes32())));
                    }
                    1 => {
                        m.insert(*k, Some(None));
                    }
                    2 => {
                        m.insert(*k, None);
                    }
                    _ => {}
                }
            }
        }
    }
    // reads and absent keys
    for _ in 0..rng.below(3) {
        let k = if rng.chance(1, 2) { *rng.pick(uni) } else { rng.bytes32() };
        m.entry(k).or_insert(None);
    }
    if rng.chance(1, 4) {
        let k = rng.bytes32();
        m.entry(k).or_insert(Some(None)); // delete of an absent key
    }
    m.into_iter().collect()
}

fn spliced(t: &Terminal) -> Vec<(Key, [u8; 32])> {
    let leaf = t.leaf.map(|(k, v)| LeafData { key_path: k, value_hash: v });
    nomt_core::update::leaf_ops_spliced(leaf, &t.ops).collect()
}

// ---------------------------------------------------------------------------------------------------------------
// flows

/// one pass with a single walker over the whole trie
fn pass_whole(w: &mut World, batch: &[(Key, Option<Option<[u8; 32]>>)]) -> Option<Node> {
    let ts = w.terminals(batch);
    for t in &ts {
        if !w.seek(&t.pos) {
            return None;
        }
    }
    w.w_new(w.root, None);
    for t in &ts {
        let ok = if t.has_writes { w.w_rep(&t.pos, &spliced(t)) } else { w.w_adv(&t.pos) };
        if !ok {
            let c = format!("C02 the walker panicked at terminal {} of an ascending in-scope script", bits_string(&t.pos));
            w.fail(c);
            return None;
        }
    }
    match w.w_conclude() {
        None => {
            w.fail("C02 conclude panicked after an ascending in-scope script".into());
            None
        }
        Some(o) => match o.root {
            Some(r) => Some(r),
            None => {
                w.fail("C02 a walker without parent page concluded with child page roots".into());
                None
            }
        },
    }
}

/// one pass the way `merkle::worker` splits it: walkers below the root page, then the root-page walker
fn pass_split(w: &mut World, rng: &mut Rng, batch: &[(Key, Option<Option<[u8; 32]>>)], new_kvs: &[(Key, [u8; 32])]) -> Option<Node> {
    let ts = w.terminals(batch);
    for t in &ts {
        if !w.seek(&t.pos) {
            return None;
        }
    }
    // worker regions: contiguous ranges of the 64 children of the root
    let nworkers = rng.range(1, 4);
    let mut cuts: Vec<u8> = (0..nworkers - 1).map(|_| rng.range(1, 63) as u8).collect();
    cuts.sort();
    cuts.dedup();
    let region = |c: u8| cuts.iter().filter(|&&x| x <= c).count();
    let mut child_roots: Vec<(Vec<bool>, Node)> = Vec::new();
    for wi in 0..=cuts.len() {
        let mine: Vec<&Terminal> = ts.iter().filter(|t| t.pos.len() > 6 && region(page_of(&t.pos)[0]) == wi).collect();
        if mine.is_empty() && rng.chance(1, 2) {
            continue;
        }
        w.w_new(w.root, Some(&[]));
        for t in mine {
            let ok = if t.has_writes { w.w_rep(&t.pos, &spliced(t)) } else { w.w_adv(&t.pos) };
            if !ok {
                let c = format!("C02 a sub-trie walker panicked at terminal {} of an ascending in-scope script", bits_string(&t.pos));
                w.fail(c);
                return None;
            }
        }
        match w.w_conclude() {
            None => {
                w.fail("C02 conclude of a sub-trie walker panicked".into());
                return None;
            }
            Some(o) => {
                if o.root.is_some() {
                    w.fail("C13 a walker with a parent page concluded with a root".into());
                }
                for (pos, node) in &o.child_page_roots {
                    let want = ref_node(under(new_kvs, pos), pos.len());
                    if *node != want {
                        w.fail(format!("C13 child page root at {} is {} but the node of the updated set is {}", bits_string(pos), hex(node), hex(&want)));
                    }
                    if pos.len() != 6 {
                        w.fail(format!("C13 child page root at depth {} (below the root page it must be 6)", pos.len()));
                    }
                }
                w.out.add("child_page_roots", o.child_page_roots.len() as u64);
                child_roots.extend(o.child_page_roots);
            }
        }
    }
    // the root-page walker: placed nodes and the sub-tries whose terminal lies in the root page, by position
    enum Pend<'t> {
        Node(Node),
        Sub(&'t Terminal),
    }
    let mut pend: Vec<(Vec<bool>, Pend)> = child_roots.into_iter().map(|(p, n)| (p, Pend::Node(n))).collect();
    for t in ts.iter().filter(|t| t.pos.len() <= 6) {
        pend.push((t.pos.clone(), Pend::Sub(t)));
    }
    pend.sort_by(|a, b| a.0.cmp(&b.0));
    // the root page must be in the set if anything is placed into it (seek only fetched it for terminals)
    w.w_new(w.root, None);
    for (pos, p) in &pend {
        let ok = match p {
            Pend::Node(n) => w.w_place(pos, *n),
            Pend::Sub(t) => w.w_rep(pos, &spliced(t)),
        };
        if !ok {
            let c = format!("C02 the root-page walker panicked at {}", bits_string(pos));
            w.fail(c);
            return None;
        }
    }
    match w.w_conclude() {
        None => {
            w.fail("C02 conclude of the root-page walker panicked".into());
            None
        }
        Some(o) => o.root,
    }
}

static FORCE_SPLIT: std::sync::atomic::AtomicBool = std::sync::atomic::AtomicBool::new(false);

fn run_history(out: &mut Sink, rng: &mut Rng, case: String) {
    let garbage = if rng.chance(1, 4) { Some(rng.range(1, 255) as u8) } else { None };
    let inhibit = rng.chance(1, 5);
    let mut w = World::new(out, garbage, inhibit, case);
    let uni = gen_universe(rng);
    let npasses = rng.range(2, 6);
    let mut concluded = 0;
    let mut multi_page = false;
    let mut crossed = false;
    for pass in 0..npasses {
        let batch = gen_batch(rng, &uni, &w.kv, pass);
        let mut new_kv = w.kv.clone();
        for (k, op) in &batch {
            match op {
                Some(Some(v)) => {
                    new_kv.insert(*k, *v);
                }
                Some(None) => {
                    new_kv.remove(k);
                }
                None => {}
            }
        }
        let new_kvs: Vec<(Key, [u8; 32])> = new_kv.iter().map(|(k, v)| (*k, *v)).collect();
        let split = rng.chance(1, 3) || FORCE_SPLIT.load(std::sync::atomic::Ordering::Relaxed);
        w.out.count(if split { "pass_split" } else { "pass_whole" });
        let stored_before: std::collections::BTreeSet<Vec<u8>> = w.store.keys().cloned().collect();
        let r = if split { pass_split(&mut w, rng, &batch, &new_kvs) } else { pass_whole(&mut w, &batch) };
        let Some(root) = r else {
            break;
        };
        concluded += 1;
        let want = ref_root(&new_kvs);
        if root != want {
            w.fail(format!("C02 pass {pass}: concluded root {} but the root of the updated set ({} keys) is {}", hex(&root), new_kvs.len(), hex(&want)));
        }
        let pend = w.pending.clone();
        if pend.len() >= 2 {
            multi_page = true;
        }
        w.check_output_pages(&pend, &new_kvs, &format!("pass {pass}"));
        w.kv = new_kv;
        w.root = root;
        w.w_apply();
        w.check_store(&format!("after pass {pass}"));
        let stored_after: std::collections::BTreeSet<Vec<u8>> = w.store.keys().cloned().collect();
        for p in stored_before.symmetric_difference(&stored_after) {
            if p.len() >= 2 {
                crossed = true;
                w.out.count(if stored_after.contains(p) { "page_promoted_or_created" } else { "page_elided_or_removed" });
            }
        }
        w.out.add("batch_ops", batch.len() as u64);
    }
    if concluded >= 2 && multi_page {
        let sig = w.out.ops[w.lines0..].join("\n");
        w.out.nontrivial(&sig);
    }
    if crossed {
        w.out.count("histories_crossing_storage");
    }
    if garbage.is_some() {
        w.out.count("histories_garbage_fresh_pages");
    }
    if inhibit {
        w.out.count("histories_inhibit_elision");
    }
}


// ---------------------------------------------------------------------------------------------------------------
// histories that walk INTO reconstructed pages (unit Q35)

/// a small cluster of keys below a stored region: candidates under a common prefix that ends 1..4 pages below the bulk
struct ReconCluster {
    pool: Vec<Key>,
}

/// a bulk of >= 20 keys under `d0` bits (so the pages down to there are stored) and, inside it, 1..3 clusters of up to 26
/// candidate keys under prefixes of 12..48 bits; most candidates share 0..3 further sextets, so the 2..19 leaves of a cluster
/// occupy a chain of 1..4 pages
fn gen_recon_universe(rng: &mut Rng) -> (Vec<Key>, Vec<ReconCluster>) {
    let base = rng.bytes32();
    let d0 = rng.range(4, 13);
    let mut bulk: Vec<Key> = (0..rng.range(20, 30)).map(|_| with_prefix(rng, &base, d0)).collect();
    let mut clusters = Vec::new();
    for _ in 0..rng.range(1, 3) {
        // the cluster's own prefix: below a page of depth >= 2, at / around a page boundary
        let k = rng.range(2, 7);
        let d = (6 * k + [0usize, 0, 1, 5, 3][rng.below(5)]).min(60);
        let cbase = with_prefix(rng, &base, d0.min(d));
        let chain = rng.below(4); // further shared sextets
        let deep = (d + 6 * chain + rng.below(6)).min(200);
        let spine = with_prefix(rng, &cbase, d);
        let mut pool: Vec<Key> = Vec::new();
        for _ in 0..26 {
            let k = match rng.below(8) {
                0 => with_prefix(rng, &spine, d),                         // leaves the chain at once
                1 => {
                    // leaves it at a page boundary
                    let at = (d + 6 * rng.below(chain + 1)).min(deep);
                    with_prefix(rng, &spine, at)
                }
                2 => {
                    // a sibling leaf just below the end of the chain
                    let mut x = with_prefix(rng, &spine, deep);
                    let j = (deep + rng.below(8)).min(255);
                    set_bit(&mut x, j, !bit(&spine, j));
                    x
                }
                _ => with_prefix(rng, &spine, deep),
            };
            pool.push(k);
        }
        pool.sort();
        pool.dedup();
        clusters.push(ReconCluster { pool });
    }
    bulk.sort();
    bulk.dedup();
    (bulk, clusters)
}

fn run_recon_history(out: &mut Sink, rng: &mut Rng, case: String) {
    let garbage = if rng.chance(1, 4) { Some(rng.range(1, 255) as u8) } else { None };
    let mut w = World::new(out, garbage, false, case);
    let (bulk, clusters) = gen_recon_universe(rng);
    let npasses = rng.range(3, 7);
    // the size every cluster has after every pass: start small (elided), then cross the threshold both ways, empty out, regrow
    let mut sizes: Vec<Vec<usize>> = Vec::new();
    for c in &clusters {
        let cap = c.pool.len();
        let mut v = vec![rng.range(2, THRESHOLD - 1).min(cap)];
        for _ in 1..npasses {
            let prev = *v.last().unwrap();
            let n = match rng.below(9) {
                0 | 1 => rng.range(THRESHOLD, THRESHOLD + 5),          // grow across the threshold
                2 => THRESHOLD,                                          // exactly the threshold
                3 => THRESHOLD - 1,                                      // one below
                4 => rng.range(2, THRESHOLD - 1),                        // small again
                5 => rng.below(2),                                       // (nearly) empty: the pages go
                6 => prev,                                               // values only
                7 => (prev + 1).min(cap),                                // one more
                _ => prev.saturating_sub(rng.range(1, 3)),               // a few less
            };
            v.push(n.min(cap));
        }
        sizes.push(v);
    }
    let mut concluded = 0;
    let mut entered_any = false;
    for pass in 0..npasses {
        let mut m: BTreeMap<Key, Option<Option<[u8; 32]>>> = BTreeMap::new();
        if pass == 0 {
            for k in &bulk {
                m.insert(*k, Some(Some(rng.bytes32())));
            }
        } else {
            // a little traffic in the bulk
            for _ in 0..rng.below(3) {
                let k = *rng.pick(&bulk);
                let wv = if w.kv.contains_key(&k) && rng.chance(1, 3) { None } else { Some(rng.bytes32()) };
                m.insert(k, Some(wv));
            }
        }
        for (ci, c) in clusters.iter().enumerate() {
            let target = sizes[ci][pass];
            let mut present: Vec<Key> = c.pool.iter().filter(|k| w.kv.contains_key(*k)).cloned().collect();
            let mut absent: Vec<Key> = c.pool.iter().filter(|k| !w.kv.contains_key(*k)).cloned().collect();
            while present.len() > target {
                let k = present.swap_remove(rng.below(present.len()));
                m.insert(k, Some(None));
            }
            while present.len() < target && !absent.is_empty() {
                let k = absent.swap_remove(rng.below(absent.len()));
                m.insert(k, Some(Some(rng.bytes32())));
                present.push(k);
            }
            // rewrite / read some of the leaves that stay, so that terminals lie INSIDE the cluster even when its size stays
            for _ in 0..rng.range(1, 3) {
                if present.is_empty() {
                    break;
                }
                let k = *rng.pick(&present);
                m.entry(k).or_insert(if rng.chance(3, 4) { Some(Some(rng.bytes32())) } else { None });
            }
            if rng.chance(1, 3) && !absent.is_empty() {
                // a read / delete of an absent key of the cluster (terminal = a terminator or a foreign leaf inside it)
                let k = *rng.pick(&absent);
                m.entry(k).or_insert(if rng.chance(1, 2) { None } else { Some(None) });
            }
        }
        let batch: Vec<(Key, Option<Option<[u8; 32]>>)> = m.into_iter().collect();
        let mut new_kv = w.kv.clone();
        for (k, op) in &batch {
            match op {
                Some(Some(v)) => {
                    new_kv.insert(*k, *v);
                }
                Some(None) => {
                    new_kv.remove(k);
                }
                None => {}
            }
        }
        let new_kvs: Vec<(Key, [u8; 32])> = new_kv.iter().map(|(k, v)| (*k, *v)).collect();
        let split = rng.chance(1, 3);
        w.out.count(if split { "pass_split" } else { "pass_whole" });
        let stored_before: std::collections::BTreeSet<Vec<u8>> = w.store.keys().cloned().collect();
        let r = if split { pass_split(&mut w, rng, &batch, &new_kvs) } else { pass_whole(&mut w, &batch) };
        let Some(root) = r else {
            break;
        };
        concluded += 1;
        let want = ref_root(&new_kvs);
        if root != want {
            w.fail(format!("C02 pass {pass}: concluded root {} but the root of the updated set ({} keys) is {}", hex(&root), new_kvs.len(), hex(&want)));
        }
        let pend = w.pending.clone();
        w.check_output_pages(&pend, &new_kvs, &format!("pass {pass}"));
        // the pages that go to fresh buckets, through the REAL prepare_sync and the REAL recover over stale bucket content
        if pass % 2 == 1 || pend.len() < 6 {
            let fresh: Vec<crate::prepsync::FreshPage> = pend
                .iter()
                .filter(|p| p.bucket.is_none() && p.diff[1] & CLEAR_BIT == 0)
                .map(|p| {
                    let path = p.page_id.length_dependent_encoding().to_vec();
                    let meaningful = (0..126)
                        .filter(|&i| {
                            let sp = slot_path(&path, i);
                            sp.len() <= 256 && under(&new_kvs, &sp[..sp.len() - 1]).len() >= 2
                        })
                        .collect();
                    crate::prepsync::FreshPage { pid: p.page_id.clone(), nodes: p.page.nodes.clone(), elided: p.page.elided, diff: p.diff, meaningful }
                })
                .collect();
            if !fresh.is_empty() {
                let mut r2 = Rng::new(digest(&pend[0].page) ^ (pass as u64) << 32 ^ fresh.len() as u64);
                let dir = redo_dir();
                crate::prepsync::redo_of_walker_pages(w.out, &mut r2, &dir, &fresh, &format!("{} pass {pass}", w.case));
            }
        }
        // a page that was reconstructed for this pass and is handed out was promoted: its diff must carry EVERY meaningful slot
        // (it goes to a fresh bucket), and it must not be handed out as cleared
        let recon_ids = w.recon_ids.clone();
        let entered = w.recon_entered;
        if entered > 0 {
            entered_any = true;
            w.out.count("walk_entered_reconstructed");
            w.out.add("terminals_in_reconstructed_pages", entered as u64);
            if split {
                w.out.count("walk_entered_reconstructed_split");
            }
        }
        for p in &pend {
            let path = p.page_id.length_dependent_encoding().to_vec();
            if recon_ids.contains(&path) {
                if p.diff[1] & CLEAR_BIT != 0 {
                    w.fail(format!("C16 pass {pass}: reconstructed page {} is handed out as cleared", pid_str(&p.page_id)));
                }
                if p.bucket.is_some() {
                    w.fail(format!("C16 pass {pass}: reconstructed page {} is handed out with a bucket", pid_str(&p.page_id)));
                }
                if under(&new_kvs, &page_bits(&path)).len() < THRESHOLD {
                    w.fail(format!("C02 pass {pass}: reconstructed page {} is promoted with {} leaves below", pid_str(&p.page_id), under(&new_kvs, &page_bits(&path)).len()));
                }
                w.out.count("promoted");
            }
        }
        // a reconstructed page that is NOT handed out stays elided: fewer than the threshold below it
        for path in &recon_ids {
            let n = under(&new_kvs, &page_bits(path)).len();
            if !pend.iter().any(|p| &p.page_id.length_dependent_encoding().to_vec() == path) {
                if n >= THRESHOLD {
                    w.fail(format!("C02 pass {pass}: reconstructed page {} holds {} leaves after the pass but is not handed out", pid_str(&mk_pid(path)), n));
                }
                w.out.count(if n >= 2 { "reconstructed_stays_elided" } else { "reconstructed_vanishes" });
            }
        }
        w.kv = new_kv;
        w.root = root;
        w.w_apply();
        w.check_store(&format!("after pass {pass}"));
        let stored_after: std::collections::BTreeSet<Vec<u8>> = w.store.keys().cloned().collect();
        for p in stored_before.difference(&stored_after) {
            if p.len() >= 2 {
                w.out.count("demoted");
            }
        }
        for p in stored_after.difference(&stored_before) {
            if p.len() >= 2 && !recon_ids.contains(p) {
                w.out.count("created_stored");
            }
        }
        let kvs = w.kvs();
        for p in &stored_after {
            if p.len() >= 2 && under(&kvs, &page_bits(p)).len() < THRESHOLD {
                w.out.count("stored_kept_below_threshold");
            }
        }
        w.out.add("batch_ops", batch.len() as u64);
    }
    w.out.count("recon_histories");
    if entered_any {
        w.out.count("recon_histories_entering");
    }
    if concluded >= 2 && entered_any {
        let sig = w.out.ops[w.lines0..].join("\n");
        w.out.nontrivial(&sig);
    }
    if garbage.is_some() {
        w.out.count("histories_garbage_fresh_pages");
    }
}

/// free-form scripts on a page set a valid pass produced: contract violations, missing pages, deeper parent pages
fn run_freeform(out: &mut Sink, rng: &mut Rng, case: String) {
    let garbage = if rng.chance(1, 4) { Some(rng.range(1, 255) as u8) } else { None };
    let inhibit = rng.chance(1, 4);
    let mut w = World::new(out, garbage, inhibit, case);
    let uni = gen_universe(rng);
    // a valid first pass
    let batch = gen_batch(rng, &uni, &w.kv, 0);
    if let Some(root) = pass_whole(&mut w, &batch) {
        for (k, op) in &batch {
            if let Some(Some(v)) = op {
                w.kv.insert(*k, *v);
            }
        }
        w.root = root;
        w.w_apply();
    }
    let kvs = w.kvs();
    // candidate positions: terminals of the current trie, their prefixes / extensions / siblings, random ones
    let mut cands: Vec<Vec<bool>> = vec![vec![]];
    let probe: Vec<(Key, Option<Option<[u8; 32]>>)> = uni.iter().map(|k| (*k, None)).collect();
    for t in w.terminals(&probe) {
        cands.push(t.pos.clone());
        if t.pos.len() > 1 {
            cands.push(t.pos[..t.pos.len() - 1].to_vec());
            let mut s = t.pos.clone();
            let l = s.len() - 1;
            s[l] = !s[l];
            cands.push(s);
        }
        if t.pos.len() < 250 {
            let mut e = t.pos.clone();
            e.push(rng.chance(1, 2));
            cands.push(e);
        }
        let cut = rng.below(t.pos.len() + 1);
        cands.push(t.pos[..cut].to_vec());
    }
    for _ in 0..4 {
        let k = rng.bytes32();
        cands.push(key_bits(&k, rng.range(0, 20)));
    }
    for _round in 0..rng.range(1, 3) {
        let parent: Option<Vec<u8>> = match rng.below(5) {
            0 | 1 => None,
            2 => Some(vec![]),
            3 => {
                let ids: Vec<Vec<u8>> = w.store.keys().cloned().collect();
                if ids.is_empty() {
                    Some(vec![])
                } else {
                    Some(rng.pick(&ids).clone())
                }
            }
            _ => Some(vec![rng.below(64) as u8]),
        };
        // sometimes seek first (so that elided pages are there), sometimes not (missing pages)
        let do_seek = rng.chance(3, 4);
        let ncalls = rng.range(1, 6);
        let mut script: Vec<Vec<bool>> = (0..ncalls).map(|_| rng.pick(&cands).clone()).collect();
        if rng.chance(3, 4) {
            script.sort();
        }
        if rng.chance(2, 3) {
            script.dedup();
        }
        if do_seek {
            for p in &script {
                // only terminals can be sought; ignore failures silently (this flow has no oracle)
                let before = w.out.oracle_failures.len();
                w.seek(p);
                w.out.oracle_failures.truncate(before);
            }
        }
        let root = if rng.chance(5, 6) { w.root } else { rng.bytes32() };
        w.w_new(root, parent.as_deref());
        for p in &script {
            match rng.below(6) {
                0 => {
                    w.w_adv(p);
                }
                1 => {
                    let n = if rng.chance(1, 2) { rng.bytes32() } else { [0u8; 32] };
                    w.w_place(p, n);
                }
                _ => {
                    // ops: keys under p (mostly), sorted (mostly), sometimes a duplicate
                    let mut ops: Vec<(Key, [u8; 32])> = Vec::new();
                    let below = under(&kvs, p).to_vec();
                    for (k, v) in below.iter().take(rng.below(6)) {
                        ops.push((*k, *v));
                    }
                    for _ in 0..rng.below(4) {
                        let mut k = rng.bytes32();
                        if rng.chance(5, 6) {
                            for (i, b) in p.iter().enumerate() {
                                set_bit(&mut k, i, *b);
                            }
                        }
                        ops.push((k, rng.bytes32()));
                    }
                    ops.sort();
                    ops.dedup_by(|a, b| a.0 == b.0);
                    if rng.chance(1, 12) && !ops.is_empty() {
                        let d = ops[rng.below(ops.len())];
                        ops.push(d);
                        ops.sort();
                    }
                    if rng.chance(1, 12) {
                        ops.reverse();
                    }
                    w.w_rep(p, &ops);
                }
            }
            if !w.alive {
                break;
            }
        }
        w.w_conclude();
        // the commit (also forgets the reconstructed pages of this round)
        if rng.chance(1, 2) {
            w.w_apply();
        }
    }
    w.out.count("freeform_cases");
    let sig = w.out.ops[w.lines0..].join("\n");
    w.out.nontrivial(&sig);
}

/// directed scripts: the documented panics and the shapes of the unit tests of page_walker.rs
fn run_directed(out: &mut Sink) {
    fn bits(s: &str) -> Vec<bool> {
        s.chars().map(|c| c == '1').collect()
    }
    fn key(s: &str) -> Key {
        let mut k = [0u8; 32];
        for (i, c) in s.chars().enumerate() {
            set_bit(&mut k, i, c == '1');
        }
        k
    }
    fn val(i: u8) -> [u8; 32] {
        [i; 32]
    }
    // advance backwards / same / to the parent page / to the root with a parent page
    {
        let mut w = World::new(out, None, false, "directed panics".into());
        w.w_new([0u8; 32], None);
        w.w_adv(&bits("1"));
        if w.w_adv(&bits("0")) {
            w.fail("C02 advance backwards did not panic".into());
        }
        w.w_new([0u8; 32], None);
        w.w_adv(&bits("0"));
        if w.w_adv(&bits("0")) {
            w.fail("C02 advance to the same position did not panic".into());
        }
        w.w_new([0u8; 32], Some(&[]));
        if w.w_adv(&bits("000000")) {
            w.fail("C02 advance into the parent page did not panic".into());
        }
        w.w_new([0u8; 32], Some(&[]));
        if w.w_adv(&[]) {
            w.fail("C02 advance to the root with a parent page did not panic".into());
        }
        w.w_conclude();
    }
    // garbage in sibling slots is zeroed (internal_node_zeroes_sibling)
    {
        let mut w = World::new(out, None, false, "directed zero sibling".into());
        let mut rootp = pw::PageData { nodes: vec![[0u8; 32]; 126], elided: 0 };
        for i in [1usize, 3, 7, 15, 31, 63] {
            rootp.nodes[i] = val(69);
        }
        let mut p1 = pw::PageData { nodes: vec![[0u8; 32]; 126], elided: 0 };
        p1.nodes[1] = val(69);
        w.w_put(&[], &rootp, &pw::Origin::Persisted(Some(1)));
        w.w_put(&[0], &p1, &pw::Origin::Persisted(Some(2)));
        w.store.insert(vec![], Stored { data: rootp, bucket: 1 });
        w.store.insert(vec![0], Stored { data: p1, bucket: 2 });
        w.w_new([0u8; 32], None);
        let ops = vec![(key("00000000"), val(1)), (key("00000001"), val(2))];
        w.w_rep(&[], &ops);
        if let Some(o) = w.w_conclude() {
            if o.root != Some(ref_root(&ops)) {
                w.fail("C02 directed zero sibling: wrong root".into());
            }
            for k in &ops {
                w.kv.insert(k.0, k.1);
            }
            w.w_apply();
            w.check_store("directed zero sibling");
        }
    }
    // a chain of pages cleared by deletes, then the clear bit withdrawn within one pass
    {
        let mut w = World::new(out, None, true, "directed clear bit".into());
        let a = key("00101000");
        let b = key("00101001");
        let c = key("0010101111110");
        let d = key("0010101111111");
        w.w_new([0u8; 32], None);
        w.w_rep(&[], &[(a, val(1)), (b, val(2))]);
        if let Some(o) = w.w_conclude() {
            w.kv.insert(a, val(1));
            w.kv.insert(b, val(2));
            w.root = o.root.unwrap();
            let kvs = w.kvs();
            let pend = w.pending.clone();
            w.check_output_pages(&pend, &kvs, "directed clear bit 1");
            w.w_apply();
            w.check_store("directed clear bit 1");
        }
        w.w_new(w.root, None);
        w.w_rep(&bits("00101000"), &[]);
        w.w_rep(&bits("00101001"), &[]);
        w.w_rep(&bits("001010111111"), &[(c, val(3)), (d, val(4))]);
        if let Some(o) = w.w_conclude() {
            w.kv.clear();
            w.kv.insert(c, val(3));
            w.kv.insert(d, val(4));
            let kvs = w.kvs();
            if o.root != Some(ref_root(&kvs)) {
                w.fail("C02 directed clear bit: wrong root".into());
            }
            for p in &o.pages {
                if p.diff[1] & CLEAR_BIT != 0 {
                    w.fail(format!("C16 directed clear bit: page {} is cleared although it holds nodes", pid_str(&p.page_id)));
                }
            }
            let pend = w.pending.clone();
            w.check_output_pages(&pend, &kvs, "directed clear bit 2");
            w.w_apply();
            w.check_store("directed clear bit 2");
        }
    }
    out.count("directed_cases");
}

fn redo_dir() -> String {
    let d = format!("/dev/shm/nomt-verif-walkredo-{}", std::process::id());
    let _ = std::fs::create_dir_all(&d);
    d
}

pub fn run(seed: u64, cases: usize, focus: &str, out: &mut Sink) {
    let mut rng = Rng::new(seed ^ 0x57a1_4e55);
    let split_only = focus == "split";
    let recon_only = focus == "recon";
    FORCE_SPLIT.store(split_only, std::sync::atomic::Ordering::Relaxed);
    if !split_only && !recon_only {
        run_directed(out);
    }
    for c in 0..cases {
        out.mark_case(format!("walker seed={seed} case={c}"));
        let mut r = rng.fork();
        if recon_only || (c % 5 == 2 && !split_only) {
            // walks INTO reconstructed pages: every case of `--focus recon`, one in five of the default mix
            run_recon_history(out, &mut r, format!("walker --seed {seed} case {c} (recon){}", if recon_only { " --focus recon" } else { "" }));
        } else if c % 5 == 4 && !split_only {
            run_freeform(out, &mut r, format!("walker --seed {seed} case {c} (freeform)"));
        } else {
            run_history(out, &mut r, format!("walker --seed {seed} case {c}"));
        }
    }
    let _ = std::fs::remove_dir_all(redo_dir());
}
